import MazeVerif.Lemmas.FilterSharing
/-! # C08 — dataset filters select exactly what they document and never disturb their input

Model: `MZ.Filt` (`Model/Filters.lean`), a heap of config cells / maze objects / dataset objects; `regStep` is what the
registering wrappers do around an undecorated filter, `applyOp` one filter application as the user writes it, `runSeq` a
finite sequence of applications, `applyFromConfig` the config-driven entry point.  `np : Percentile` (numpy's percentile)
is universally quantified.  `Copied h c h' d' ms' g r` (Lemmas) says: `h'` is `h` plus ONE fresh config cell (`c` with the
record `r` appended and `n_mazes = |ms'|`), fresh maze objects holding exactly `ms'`, and one fresh dataset object `d'`.
`posFilter f [] l` keeps position `i` of `l` iff `f (l.take i) l[i] (l.drop (i+1))` (`C08_posFilter_index`).
History level (`Lemmas/FilterSharing.lean`): `Heap.Closed` = no dataset object has a dangling reference; `Heap.Isolated h d` =
dataset `d` shares neither its config cell nor a maze cell with ANOTHER dataset object (the same maze cell may occur at
several positions of `d` itself); `Heap.Disjoint` = every dataset is isolated; `Heap.Untouched h h' i` = dataset object `i`
(config reference, list of maze references, collected metadata), the content of its config cell and the content of each of
its maze cells (`generation_meta` included) are the same in `h'` as in `h`; `Op.inplaceCollect` = the op is
`collect_generation_meta` with a truthy bound `inplace`.
Only property theorems and their non-vacuity examples live here. -/
namespace MZ.Filt
open MZ.Gen (PyLit filterTable)

/-! ## the generated table and the model's filter names agree -/

theorem C08_table_names :
    filterTable.map (fun e => (e.1, e.2.1)) = FName.all.map (fun f => (f.str, f.kind)) ∧
    ∀ f : FName, FName.ofString f.str = some f := by
  refine ⟨by decide, ?_⟩
  intro f; cases f <;> decide

/-! ## what `Copied` means in observable terms -/

/-- selection, provenance, freshness and frame in one statement: after a copying step the result dataset `d'` holds exactly
    `ms'`; its config is a NEW cell whose `applied_filters` is the input's followed by `r`, whose `n_mazes` is `|ms'|` and
    whose other fields are the input's; every object that existed before is still there, unchanged (the old heap is a
    prefix of the new one), the result's maze objects are all new, and the input dataset still views exactly as before. -/
theorem C08_copied_spec (h : Heap) (d : Nat) (ds : DS) (c : Cfg) (ms : List Maze) (h' : Heap) (d' : Nat)
    (ms' : List Maze) (g : Option Collected) (r : FilterRec)
    (hv : h.view d = some (ds, c, ms)) (hc : Copied h c h' d' ms' g r) :
    (∃ ds' c', h'.view d' = some (ds', c', ms') ∧ c'.applied = c.applied ++ [r] ∧ c'.nMazes = ms'.length ∧ c'.base = c.base ∧
        ds'.gmc = g ∧ ds'.cfg = h.cfgs.length ∧ (∀ a ∈ ds'.mazes, h.mazes.length ≤ a) ∧ ds'.mazes.length = ms'.length) ∧
    d' = h.dsets.length ∧
    h.cfgs <+: h'.cfgs ∧ h.mazes <+: h'.mazes ∧ h.dsets <+: h'.dsets ∧
    h'.view d = some (ds, c, ms) := by
  obtain ⟨rfl, rfl⟩ := hc
  refine ⟨⟨_, _, outHeap_view h c ms' g r, rfl, rfl, rfl, rfl, rfl, ?_, by simp⟩, rfl, ?_, ?_, ?_, ?_⟩
  · intro a ha
    simp only [List.mem_range'_1] at ha
    exact ha.1
  · exact List.prefix_append _ _
  · exact List.prefix_append _ _
  · exact List.prefix_append _ _
  · obtain ⟨_, hds, hcc, hms⟩ := view_cfgOf hv
    have hd : d < h.dsets.length := by
      rcases Nat.lt_or_ge d h.dsets.length with h' | h'
      · exact h'
      · rw [List.getElem?_eq_none_iff.2 h'] at hds; cases hds
    have hcl : ds.cfg < h.cfgs.length := by
      rcases Nat.lt_or_ge ds.cfg h.cfgs.length with h' | h'
      · exact h'
      · rw [List.getElem?_eq_none_iff.2 h'] at hcc; cases hcc
    simp only [Heap.view, outHeap, List.getElem?_append_left hd, hds, List.getElem?_append_left hcl, hcc,
      getAll_append_left _ _ _ _ hms]

/-! ## each built-in filter = the documented rule, as a sublist in original order -/

/-- `path_length(min_length)`: exactly the mazes with `len(solution) >= min_length`, original order -/
theorem C08_path_length (np : Percentile) (h : Heap) (d : Nat) (a : PyLit) (r : FilterRec) (h' : Heap) (d' : Nat)
    (hs : regStep np h d .pathLength [a] r = .ok (h', d')) :
    ∃ q ds c ms, asNum a = some q ∧ h.view d = some (ds, c, ms) ∧
      Copied h c h' d' (ms.filter (fun m => geNum m.sol.length q)) none r := by
  obtain ⟨h1, nd, hm⟩ := regStep_method hs
  obtain ⟨ds, c, ms, hv⟩ := method_view hm
  cases hq : asNum a with
  | none => simp [method, hv, hq] at hm
  | some q =>
    refine ⟨q, ds, c, ms, rfl, hv, regStep_of_copyNew hs ?_⟩
    intro h1 nd hm
    simp only [method, hv, hq] at hm
    exact hm

/-- integer reading of the rule: `min_length ≤ len(solution)` -/
theorem C08_path_length_int (k : Int) (n : Nat) : geNum n (k, 1) = decide (k ≤ (n : Int)) := by
  simp [geNum]

/-- `start_end_distance(min_distance)`: exactly the mazes with `|Δrow| + |Δcol| >= min_distance`, original order -/
theorem C08_start_end_distance (np : Percentile) (h : Heap) (d : Nat) (a : PyLit) (r : FilterRec) (h' : Heap) (d' : Nat)
    (hs : regStep np h d .startEndDistance [a] r = .ok (h', d')) :
    ∃ q ds c ms, asNum a = some q ∧ h.view d = some (ds, c, ms) ∧
      Copied h c h' d' (ms.filter (fun m => geNum ((m.startPos.1 - m.endPos.1).natAbs + (m.startPos.2 - m.endPos.2).natAbs) q)) none r := by
  obtain ⟨h1, nd, hm⟩ := regStep_method hs
  obtain ⟨ds, c, ms, hv⟩ := method_view hm
  cases hq : asNum a with
  | none => simp [method, hv, hq] at hm
  | some q =>
    refine ⟨q, ds, c, ms, rfl, hv, regStep_of_copyNew hs ?_⟩
    intro h1 nd hm
    simp only [method, hv, hq] at hm
    exact hm

/-- `cut_percentile_shortest(p)`: exactly the mazes STRICTLY longer than the truncated percentile numpy reports for the
    input's lengths, original order; if numpy raises, so does the filter -/
theorem C08_cut_percentile (np : Percentile) (h : Heap) (d : Nat) (p : PyLit) (r : FilterRec) (h' : Heap) (d' : Nat)
    (hs : regStep np h d .cutPercentile [p] r = .ok (h', d')) :
    ∃ v ds c ms, h.view d = some (ds, c, ms) ∧ np (ms.map (fun m => m.sol.length)) p = .ok v ∧
      Copied h c h' d' (ms.filter (fun m => decide (Int.tdiv v.1 (v.2 : Int) < (m.sol.length : Int)))) none r := by
  obtain ⟨h1, nd, hm⟩ := regStep_method hs
  obtain ⟨ds, c, ms, hv⟩ := method_view hm
  cases hq : np (ms.map (fun m => m.sol.length)) p with
  | error e => simp [method, hv, hq] at hm
  | ok v =>
    refine ⟨v, ds, c, ms, hv, hq, regStep_of_copyNew hs ?_⟩
    intro h1 nd hm
    simp only [method, hv, hq] at hm
    exact hm

/-- `truncate_count(max_count)`: the first `max_count` mazes (Python slice semantics for a negative count) -/
theorem C08_truncate_count (np : Percentile) (h : Heap) (d : Nat) (k : Int) (r : FilterRec) (h' : Heap) (d' : Nat)
    (hs : regStep np h d .truncateCount [.int k] r = .ok (h', d')) :
    ∃ ds c ms, h.view d = some (ds, c, ms) ∧
      Copied h c h' d' (if 0 ≤ k then ms.take k.toNat else ms.take (ms.length - k.natAbs)) none r := by
  obtain ⟨h1, nd, hm⟩ := regStep_method hs
  obtain ⟨ds, c, ms, hv⟩ := method_view hm
  refine ⟨ds, c, ms, hv, regStep_of_copyNew hs ?_⟩
  intro h1 nd hm
  simpa [method, hv, pySliceTo] using hm

/-- `remove_duplicates(a, b, threshold)`: a maze is kept iff NO LATER maze is within the thresholds (`close`), original
    order; collected metadata is carried over; more than `threshold` mazes are refused -/
theorem C08_remove_duplicates (np : Percentile) (h : Heap) (d : Nat) (a b t : PyLit) (r : FilterRec) (h' : Heap) (d' : Nat)
    (hs : regStep np h d .removeDuplicates [a, b, t] r = .ok (h', d')) :
    ∃ mdcl mds thr ds c ms, asOptNum a = some mdcl ∧ asOptNum b = some mds ∧ asNum t = some thr ∧
      h.view d = some (ds, c, ms) ∧ leNum ms.length thr = true ∧
      Copied h c h' d' (posFilter (fun _ x suf => !suf.any (close mdcl mds x)) [] ms) ds.gmc r := by
  obtain ⟨h1, nd, hm⟩ := regStep_method hs
  obtain ⟨ds, c, ms, hv⟩ := method_view hm
  cases ha : asOptNum a with
  | none => simp [method, hv, ha] at hm
  | some mdcl =>
    cases hb : asOptNum b with
    | none => simp [method, hv, ha, hb] at hm
    | some mds =>
      cases ht : asNum t with
      | none => simp [method, hv, ha, hb, ht] at hm
      | some thr =>
        cases hl : leNum ms.length thr with
        | false => simp [method, hv, ha, hb, ht, hl] at hm
        | true =>
          refine ⟨mdcl, mds, thr, ds, c, ms, rfl, rfl, rfl, hv, hl, regStep_of_copyNew hs ?_⟩
          intro h1 nd hm
          rw [← rdLoop_eq_posFilter]
          simpa [method, hv, ha, hb, ht, hl] using hm

/-- the closeness test is the documented one: same shape and at most `t` differing connection entries, OR same solution
    length and at most `t'` differing solution coordinates; `None` disables a test -/
theorem C08_close_iff (mdcl mds : Option (Int × Nat)) (x y : Maze) :
    close mdcl mds x y = true ↔
      (∃ t, mdcl = some t ∧ x.shape = y.shape ∧ leNum (diffCount x.conn y.conn) t = true) ∨
      (∃ t, mds = some t ∧ x.sol.length = y.sol.length ∧ leNum (solDiff x.sol y.sol) t = true) := by
  cases mdcl <;> cases mds <;> simp [close]

/-- `remove_duplicates_fast`: first occurrences under `==` are kept (position `i` survives iff no EARLIER maze equals it),
    the result is a sublist in original order, pairwise distinct under `==`, and covers the same mazes up to `==` -/
theorem C08_remove_duplicates_fast (np : Percentile) (h : Heap) (d : Nat) (r : FilterRec) (h' : Heap) (d' : Nat)
    (hs : regStep np h d .removeDuplicatesFast [] r = .ok (h', d')) :
    ∃ ds c ms, h.view d = some (ds, c, ms) ∧ Copied h c h' d' (dedup ms) ds.gmc r ∧
      dedup ms = posFilter (fun pre x _ => !pre.any (fun p => p.pyEq x)) [] ms ∧
      (dedup ms).Sublist ms ∧ ((dedup ms).map Maze.key).Nodup ∧
      (∀ k, k ∈ (dedup ms).map Maze.key ↔ k ∈ ms.map Maze.key) := by
  obtain ⟨h1, nd, hm⟩ := regStep_method hs
  obtain ⟨ds, c, ms, hv⟩ := method_view hm
  have he : dedup ms = posFilter (fun pre x _ => !pre.any (fun p => p.pyEq x)) [] ms :=
    dedupGo_eq_posFilter ms [] [] (by simp)
  refine ⟨ds, c, ms, hv, regStep_of_copyNew hs ?_, he, ?_, dedupGo_nodup ms [], ?_⟩
  · intro h1 nd hm
    simpa [method, hv] using hm
  · rw [he]; exact posFilter_sublist _ _ _
  · intro k
    have := dedupGo_mem_keys ms [] k
    simpa [dedup] using this

/-- `strip_generation_meta`: every maze is kept, in order, with `generation_meta = None`; only the copies are touched -/
theorem C08_strip_generation_meta (np : Percentile) (h : Heap) (d : Nat) (r : FilterRec) (h' : Heap) (d' : Nat)
    (hs : regStep np h d .stripMeta [] r = .ok (h', d')) :
    ∃ ds c ms, h.view d = some (ds, c, ms) ∧
      Copied h c h' d' (ms.map (fun m => { m with gmeta := none })) ds.gmc r := by
  obtain ⟨h1, nd, hm⟩ := regStep_method hs
  obtain ⟨ds, c, ms, hv⟩ := method_view hm
  refine ⟨ds, c, ms, hv, regStep_of_copyNew hs ?_⟩
  intro h1 nd hm
  simpa [method, hv] using hm

/-- every selection above is a sublist of the input in original order (for the two positional rules via `posFilter`) -/
theorem C08_selection_sublist (ms : List Maze) (p : Maze → Bool) (k : Nat) (f : List Maze → Maze → List Maze → Bool) :
    (ms.filter p).Sublist ms ∧ (ms.take k).Sublist ms ∧ (posFilter f [] ms).Sublist ms :=
  ⟨List.filter_sublist, List.take_sublist _ _, posFilter_sublist f ms []⟩

/-- index reading of `posFilter`: position `i` survives iff the rule holds for (earlier mazes, the maze, later mazes);
    `survivors f [] ms` = `[ms[i] | i < |ms|, f (ms.take i) ms[i] (ms.drop (i+1))]` -/
theorem C08_posFilter_index (f : List Maze → Maze → List Maze → Bool) (ms : List Maze) :
    posFilter f [] ms = survivors f [] ms := posFilter_eq_survivors f ms []

/-- `custom_maze_filter(pred)` (repaired code): exactly the mazes satisfying the predicate, original order, delivered like
    the registered maze filters' results as a FRESH COPY (`Copied`, spelled out by `C08_copied_spec`): new maze objects holding
    the kept mazes' values, a new config cell with the record `{name, args = (), kwargs}` appended and `n_mazes` updated, a
    new dataset object without collected metadata; nothing that existed before changes.  (Before the repair the result
    referenced the input's maze objects; `C08_sharing_breaks_history` shows what that allowed.) -/
theorem C08_custom (h : Heap) (d : Nat) (fname : String) (p : Maze → Bool) (kw : List (String × PyLit)) (h' : Heap) (d' : Nat)
    (hs : customFilter h d fname p kw = .ok (h', d')) :
    ∃ ds c ms, h.view d = some (ds, c, ms) ∧
      Copied h c h' d' (ms.filter p) none { name := "__custom__:" ++ fname, args := some [], kwargs := kw } := by
  obtain ⟨ds, c, ms, hv, _, hc⟩ := customFilter_spec hs
  exact ⟨ds, c, ms, hv, hc⟩

/-! ## the input is left untouched -/

/-- `collect_generation_meta(inplace=False)`, whether or not metadata was collected before: every existing object is
    untouched (old heap = prefix of the new one), the result is a NEW dataset object with a NEW config cell.  Not yet
    collected: the loop writes only to the freshly allocated copies.  Already collected: a plain deep copy (`Copied`). -/
theorem C08_collect_copy_untouched (np : Percentile) (h : Heap) (d : Nat) (cl ip af : PyLit) (r : FilterRec) (h' : Heap) (d' : Nat)
    (ds : DS) (c : Cfg) (ms : List Maze) (hv : h.view d = some (ds, c, ms)) (hip : truthy ip = false)
    (hs : regStep np h d .collectMeta [cl, ip, af] r = .ok (h', d')) :
    h.cfgs <+: h'.cfgs ∧ h.mazes <+: h'.mazes ∧ h.dsets <+: h'.dsets ∧ d' = h.dsets.length ∧
    (∃ ds', h'.dsets[d']? = some ds' ∧ ds'.cfg = h.cfgs.length) := by
  cases hg : ds.gmc with
  | some g0 =>
    have hcop : Copied h c h' d' ms (some g0) r := regStep_of_copyNew hs (by
      intro h1 nd hm
      simp only [method, hv, collectMethod, hg, Option.isSome_some, if_true, hip, Bool.false_eq_true, if_false] at hm
      exact hm)
    obtain ⟨⟨ds', c', hv', _, _, _, _, hcfg, _, _⟩, hd, p1, p2, p3, _⟩ := C08_copied_spec h d ds c ms h' d' ms (some g0) r hv hcop
    exact ⟨p1, p2, p3, hd, ds', (view_cfgOf hv').2.1, hcfg⟩
  | none =>
    unfold regStep at hs
    split at hs
    · cases hs
    · next h1 nd hm =>
      simp only [method, hv, collectMethod, hg, Option.isSome_none, Bool.false_eq_true, if_false, hip] at hm
      split at hm
      · cases hm
      · split at hm
        · cases hm
        · split at hm
          · cases hm
          · next h1' nd' hcp =>
            obtain ⟨_, rfl, rfl⟩ := copyNew_ok hcp
            simp only [List.getElem?_concat_length] at hm
            split at hm
            · cases hm
            · next mz g hl =>
              simp only [Except.ok.injEq, Prod.mk.injEq] at hm
              obtain ⟨rfl, rfl⟩ := hm
              obtain ⟨rfl, ds2, c2, hds2, hcc2, e1, e2, e3⟩ := finish_cfgOf hs
              obtain ⟨f1, _, f3⟩ := collectLoop_frame _ _ _ _ _ _ _ hl
              have hfresh : ∃ ds', h'.dsets[h.dsets.length]? = some ds' ∧ ds'.cfg = h.cfgs.length :=
                ⟨ds2, by rw [e1]; exact hds2, by simp at hds2; subst hds2; rfl⟩
              simp at hds2
              subst hds2
              refine ⟨?_, ?_, ?_, rfl, hfresh⟩
              · rw [e3]; simp
              · rw [e2]
                apply prefix_of_getElem? _ _ (by rw [f1]; simp)
                intro b hb
                rw [f3 b (by simp [List.mem_range'_1]; omega), List.getElem?_append_left hb]
              · rw [e1]; simp

/-- EVERY filter application other than the documented in-place metadata collection (all filters, all parameters, all
    datasets; `collect_generation_meta(inplace=False)` included, collected before or not): the old heap is a prefix of the
    new one (so the input dataset object, its maze list, every maze object, its config cell and every other existing object
    are unchanged), the result is a NEW dataset object with a NEW config cell, and the input still views exactly as before -/
theorem C08_input_untouched (np : Percentile) (h : Heap) (d : Nat) (op : Op) (h' : Heap) (d' : Nat)
    (hop : op.inplaceCollect = false) (hs : applyOp np h d op = .ok (h', d')) :
    h.cfgs <+: h'.cfgs ∧ h.mazes <+: h'.mazes ∧ h.dsets <+: h'.dsets ∧ d' = h.dsets.length ∧
    (∃ ds', h'.dsets[d']? = some ds' ∧ ds'.cfg = h.cfgs.length) ∧ h'.view d = h.view d := by
  cases op with
  | reg call =>
    obtain ⟨f, vals, e, hf, he, hb, hr⟩ := applyReg_regStep hs
    obtain ⟨h1, nd, hm⟩ := regStep_method hr
    obtain ⟨ds, c, ms0, hv⟩ := method_view hm
    by_cases hne : f = .collectMeta
    · subst hne
      simp only [Op.inplaceCollect, hf, he, hb] at hop
      rcases vals with _ | ⟨cl, _ | ⟨ip, _ | ⟨af, _ | ⟨x, rest⟩⟩⟩⟩
      · simp [method, hv] at hm
      · simp [method, hv] at hm
      · simp [method, hv] at hm
      · simp only at hop
        obtain ⟨p1, p2, p3, hd, hfresh⟩ := C08_collect_copy_untouched np h d cl ip af call.record h' d' ds c ms0 hv hop hr
        exact ⟨p1, p2, p3, hd, hfresh, by rw [hv]; exact view_mono p1 p2 p3 hv⟩
      · simp [method, hv] at hm
    · obtain ⟨ds2, c2, ms2, ms, g, hv2, hc⟩ := method_copy hne hm
      rw [hv] at hv2
      cases hv2
      have hcop : Copied h c h' d' ms g call.record :=
        regStep_of_copyNew hr (fun h1' nd' hm' => by rw [hm] at hm'; cases hm'; exact hc)
      obtain ⟨⟨ds', c', hv', _, _, _, _, hcfg, _, _⟩, hd, p1, p2, p3, hvd⟩ := C08_copied_spec h d ds c ms0 h' d' ms g call.record hv hcop
      exact ⟨p1, p2, p3, hd, ⟨ds', (view_cfgOf hv').2.1, hcfg⟩, by rw [hvd, hv]⟩
  | custom fname p kw =>
    obtain ⟨ds, c, ms, hv, hcop⟩ := C08_custom h d fname p kw h' d' hs
    obtain ⟨⟨ds', c', hv', _, _, _, _, hcfg, _, _⟩, hd, p1, p2, p3, hvd⟩ := C08_copied_spec h d ds c ms h' d' _ none _ hv hcop
    exact ⟨p1, p2, p3, hd, ⟨ds', (view_cfgOf hv').2.1, hcfg⟩, by rw [hvd, hv]⟩

/-! ## metadata collection -/

/-- `collect_generation_meta` on a dataset without collected metadata, in its documented in-place mode: the SAME dataset
    object is returned, the heap keeps its size, the maze objects keep every compared field (only `generation_meta` of the
    dataset's own mazes may change), `generation_metadata_collected` is what the loop computed, and the record is appended
    to the dataset's own config cell -/
theorem C08_collect_inplace (np : Percentile) (h : Heap) (d : Nat) (cl af : PyLit) (ip : PyLit) (r : FilterRec) (h' : Heap) (d' : Nat)
    (ds : DS) (c : Cfg) (ms : List Maze) (hv : h.view d = some (ds, c, ms)) (hg : ds.gmc = none) (hip : truthy ip = true)
    (hs : regStep np h d .collectMeta [cl, ip, af] r = .ok (h', d')) :
    d' = d ∧ ∃ g, collectLoop (truthy cl) (truthy af) h.mazes [] ds.mazes = .ok (h'.mazes, g) ∧
      h'.dsets = h.dsets.set d { ds with gmc := some g } ∧
      h'.cfgs = h.cfgs.set ds.cfg { c with applied := c.applied ++ [r], nMazes := ds.mazes.length } ∧
      h'.mazes.length = h.mazes.length ∧ (∀ b : Nat, (h'.mazes[b]?).map Maze.key = (h.mazes[b]?).map Maze.key) ∧
      (∀ b : Nat, b ∉ ds.mazes → h'.mazes[b]? = h.mazes[b]?) := by
  obtain ⟨_, hds, hcc, _⟩ := view_cfgOf hv
  unfold regStep at hs
  split at hs
  · cases hs
  · next h1 nd hm =>
    simp only [method, hv, collectMethod, hg, Option.isSome_none, Bool.false_eq_true, if_false, hip, if_true] at hm
    split at hm
    · cases hm
    · split at hm
      · cases hm
      · simp only [hds] at hm
        split at hm
        · cases hm
        · next mz g hl =>
          simp only [Except.ok.injEq, Prod.mk.injEq] at hm
          obtain ⟨rfl, rfl⟩ := hm
          obtain ⟨rfl, ds2, c2, hds2, hcc2, e1, e2, e3⟩ := finish_cfgOf hs
          have hlt := idx_lt_of_getElem? hds
          simp only [List.getElem?_set_self hlt, Option.some.injEq] at hds2
          subst hds2
          simp only [hcc, Option.some.injEq] at hcc2
          subst hcc2
          obtain ⟨f1, f2, f3⟩ := collectLoop_frame _ _ _ _ _ _ _ hl
          refine ⟨rfl, g, ?_, e1, e3, ?_, ?_, ?_⟩
          · rw [e2]; exact hl
          · rw [e2]; exact f1
          · rw [e2]; exact f2
          · rw [e2]; exact f3

/-- exact value counts: when the visited maze objects are pairwise distinct and all carry metadata, the collected counter of
    key `k` holds for every value `v` exactly the number of times the mazes' metadata contribute `v` under `k` (a basic value
    once, a coordinate once as a tuple, every element of a set / coordinate array once), and an uncollectable value makes the
    loop fail instead of being skipped -/
theorem C08_meta_counts (clear allowFail : Bool) (mz : List Maze) (as : List Nat) (mz' : List Maze) (g' : Collected)
    (hnd : as.Nodup) (hall : ∀ a ∈ as, ∃ m kv, mz[a]? = some m ∧ m.gmeta = some kv)
    (hl : collectLoop clear allowFail mz [] as = .ok (mz', g')) (k : String) (v : Val) :
    (g'.get k).get v = occAll mz k v as := by
  have := collectLoop_counts clear allowFail k v as mz [] mz' g' hnd hall hl
  simpa [Collected.get, Counter.get] using this

/-- what one metadata value contributes (the classification of maze_dataset.py:764-805) -/
theorem C08_meta_value_rule (dim : Nat) :
    (∀ s, metaVals dim (.scalar s) = .ok [.atom s]) ∧
    (∀ cs, metaVals dim (.set cs) = .ok (cs.map .tup)) ∧
    (∀ c, c.length = dim → metaVals dim (.arr1 c) = .ok [.tup c]) ∧
    (∀ r rows, r.length = dim → metaVals dim (.arr2 (r :: rows)) = .ok ((r :: rows).map .tup)) ∧
    metaVals dim .other = .error .ValueError := by
  refine ⟨fun _ => rfl, fun _ => rfl, fun c hc => by simp [metaVals, hc], fun r rows hr => by simp [metaVals, hr], rfl⟩

/-! ## provenance over arbitrary finite sequences -/

/-- after ANY finite sequence of successful filter applications (registered or custom, any arguments, any dataset), the
    result's `applied_filters` is the start dataset's list followed by the records of the applied operations in application
    order, its other fields are unchanged, and (if at least one filter ran) `n_mazes` equals the number of mazes it holds -/
theorem C08_provenance (np : Percentile) : ∀ (ops : List Op) (h : Heap) (d : Nat) (h' : Heap) (d' : Nat) (c : Cfg),
    runSeq np h d ops = .ok (h', d') → cfgOf h d = some c →
    ∃ c', cfgOf h' d' = some c' ∧ c'.applied = c.applied ++ ops.map Op.record ∧ c'.base = c.base ∧
      (ops ≠ [] → ∃ ds', h'.dsets[d']? = some ds' ∧ c'.nMazes = ds'.mazes.length)
  | [], h, d, h', d', c, hr, hc => by
    simp only [runSeq, Except.ok.injEq, Prod.mk.injEq] at hr
    obtain ⟨rfl, rfl⟩ := hr
    exact ⟨c, hc, by simp, rfl, fun hne => absurd rfl hne⟩
  | op :: ops, h, d, h', d', c, hr, hc => by
    unfold runSeq at hr
    split at hr
    · cases hr
    · next h1 d1 hs =>
      obtain ⟨c0, c1, ds1, hc0, hc1, hds1, ha, hb, hn⟩ := step_provenance hs
      rw [hc] at hc0
      cases hc0
      obtain ⟨c', hc', ha', hb', hn'⟩ := C08_provenance np ops h1 d1 h' d' c1 hr hc1
      refine ⟨c', hc', by rw [ha', ha]; simp, by rw [hb', hb], fun _ => ?_⟩
      cases ops with
      | nil =>
        simp only [runSeq, Except.ok.injEq, Prod.mk.injEq] at hr
        obtain ⟨rfl, rfl⟩ := hr
        rw [hc1] at hc'
        cases hc'
        exact ⟨ds1, hds1, hn⟩
      | cons o os => exact hn' (by simp)

/-! ## filters listed in a configuration = the same filters applied by hand -/

/-- `_apply_filters_from_config` on a dataset whose config lists registered filters (records with `args`, `kwargs` keys
    unique as in a dict): it fails exactly when applying the same calls by hand (to the dataset with its list cleared)
    fails, with the same error; otherwise it returns the very heap and dataset of the by-hand run followed by
    `update_self_config`, and `_check_filter_equality` accepts -/
theorem C08_from_config_eq_by_hand (np : Percentile) (h : Heap) (d : Nat) (h0 : Heap) (old : List FilterRec)
    (hc : clearApplied h d = some (h0, old))
    (hreg : ∀ r ∈ old, filterTable.any (fun e => e.1 == r.name) = true)
    (hargs : allArgs old = true) (hkw : ∀ r ∈ old, (r.kwargs.map Prod.fst).Nodup) :
    applyFromConfig np h d =
      (match runSeq np h0 d (old.map (fun r => Op.reg (callOfRec r))) with
       | .error e => .error e
       | .ok (h1, d1) =>
         match updateSelfConfig h1 d1 with
         | none => .error .other
         | some h2 => .ok (h2, d1)) := by
  unfold applyFromConfig
  rw [hc]
  simp only [cfgLoop_eq_runSeq np old h0 d hreg]
  cases hrun : runSeq np h0 d (old.map (fun r => Op.reg (callOfRec r))) with
  | error e => rfl
  | ok res =>
    obtain ⟨h1, d1⟩ := res
    simp only
    cases hu : updateSelfConfig h1 d1 with
    | none => rfl
    | some h2 =>
      simp only
      -- the cleared start config
      have hc0 : ∃ c0, cfgOf h0 d = some c0 ∧ c0.applied = [] := by
        unfold clearApplied at hc
        split at hc
        · cases hc
        · next ds hds =>
          split at hc
          · cases hc
          · next c hcc =>
            simp only [Option.some.injEq, Prod.mk.injEq] at hc
            obtain ⟨rfl, _⟩ := hc
            exact ⟨{ c with applied := [] }, by simp [cfgOf, hds, List.getElem?_set_self (idx_lt_of_getElem? hcc)], rfl⟩
      obtain ⟨c0, hc0, he⟩ := hc0
      obtain ⟨c', hc', ha', _, _⟩ := C08_provenance np _ h0 d h1 d1 c0 hrun hc0
      have hrec : (old.map (fun r => Op.reg (callOfRec r))).map Op.record = old := by
        have : ∀ (l : List FilterRec), allArgs l = true → (l.map (fun r => Op.reg (callOfRec r))).map Op.record = l := by
          intro l
          induction l with
          | nil => intro _; rfl
          | cons r rs ih =>
            intro hl
            simp only [allArgs, List.all_cons, Bool.and_eq_true] at hl
            have ih' := ih (by simpa [allArgs] using hl.2)
            simp only [List.map_cons, ih']
            congr 1
            cases hra : r.args with
            | none => simp [hra] at hl
            | some a =>
              cases r
              simp_all [Op.record, Call.record, callOfRec]
        exact this old hargs
      have happ : appliedOf h2 d1 = some old := by
        unfold updateSelfConfig at hu
        split at hu
        · cases hu
        · next ds hds =>
          split at hu
          · cases hu
          · next cc hcc =>
            simp only [Option.some.injEq] at hu
            subst hu
            have : cc = c' := by
              simp only [cfgOf, hds] at hc'
              rw [hcc] at hc'
              exact Option.some.inj hc'
            subst this
            simp [appliedOf, cfgOf, hds, List.getElem?_set_self (idx_lt_of_getElem? hcc), ha', he, hrec]
      rw [happ]
      simp [checkFilterEquality_self old hargs hkw]

/-! ## history level: no sharing, so later operations on results never disturb earlier datasets -/

/-- `Heap.Closed` is nothing exotic: a heap in which every dataset object can be viewed (its config cell and all its maze
    cells exist) is closed -/
theorem C08_closed_of_views (h : Heap) (hv : ∀ i, i < h.dsets.length → (h.view i).isSome = true) : h.Closed :=
  closed_of_views hv

/-- what `Untouched` gives in observable terms: the dataset views exactly as before (same dataset object incl. collected
    metadata, same config content, same maze values incl. `generation_meta`), cell by cell -/
theorem C08_untouched_spec (h h' : Heap) (i : Nat) (hu : h.Untouched h' i) :
    h'.view i = h.view i ∧ cfgOf h' i = cfgOf h i ∧ h'.dsets[i]? = h.dsets[i]? ∧
    ∀ ds, h.dsets[i]? = some ds → h'.cfgs[ds.cfg]? = h.cfgs[ds.cfg]? ∧ ∀ a ∈ ds.mazes, h'.mazes[a]? = h.mazes[a]? :=
  ⟨hu.view_eq.1, hu.view_eq.2, hu.1, hu.2⟩

/-- which cells ONE successful filter application (any filter, custom included, any arguments) allocates or writes:
    either it is not an in-place collection, and then the old heap is a prefix of the new one and exactly one dataset object
    was appended whose config cell and maze cells are all NEW (`FreshStep`); or it is the documented in-place collection,
    and then nothing is allocated, the same dataset object is returned and only its own `gmc`, its own config cell and its
    own maze cells may change (`InPlaceStep`) -/
theorem C08_step_shape (np : Percentile) (h : Heap) (d : Nat) (op : Op) (h' : Heap) (d' : Nat)
    (hs : applyOp np h d op = .ok (h', d')) :
    (op.inplaceCollect = false ∧ FreshStep h h' d') ∨ (op.inplaceCollect = true ∧ InPlaceStep h d h' d') :=
  applyOp_shape hs

/-- NO SHARING is an invariant of every filter application: in a closed heap in which no maze cell and no config cell is
    referenced by two different dataset objects, applying any filter (all eight registered ones with any arguments — the
    in-place and the copying mode of `collect_generation_meta` and `strip_generation_meta` included — and
    `custom_maze_filter`) to any dataset gives again such a heap -/
theorem C08_no_sharing (np : Percentile) (h : Heap) (d : Nat) (op : Op) (h' : Heap) (d' : Nat)
    (hc : h.Closed) (hdis : h.Disjoint) (hs : applyOp np h d op = .ok (h', d')) : h'.Closed ∧ h'.Disjoint :=
  step_disjoint hc hdis hs

/-- … and therefore of every finite sequence of applications -/
theorem C08_no_sharing_seq (np : Percentile) (ops : List Op) (h : Heap) (d : Nat) (h' : Heap) (d' : Nat)
    (hc : h.Closed) (hdis : h.Disjoint) (hr : runSeq np h d ops = .ok (h', d')) : h'.Closed ∧ h'.Disjoint :=
  runSeq_disjoint np ops h d h' d' hc hdis hr

/-- the weaker start condition suffices for the dataset being worked on: if only the START dataset is isolated (other
    datasets of the heap may share cells among themselves), then after any finite sequence of applications the CURRENT
    result is isolated, and it is the start dataset itself (only in-place collections ran) or an object allocated later -/
theorem C08_result_isolated (np : Percentile) (ops : List Op) (h : Heap) (d : Nat) (h' : Heap) (d' : Nat)
    (hc : h.Closed) (hiso : h.Isolated d) (hr : runSeq np h d ops = .ok (h', d')) :
    h'.Closed ∧ h'.Isolated d' ∧ h.dsets.length ≤ h'.dsets.length ∧ (d' = d ∨ h.dsets.length ≤ d') := by
  obtain ⟨a, b, c, e, _⟩ := runSeq_sharing np ops h d h' d' hc hiso hr
  exact ⟨a, b, c, e⟩

/-- one application, every earlier dataset: in a closed heap whose current dataset `d` is isolated, every dataset object
    `i` that exists and is not the in-place target (`i ≠ d`, or the op is not an in-place collection) is untouched -/
theorem C08_step_untouched (np : Percentile) (h : Heap) (d : Nat) (op : Op) (h' : Heap) (d' : Nat)
    (hc : h.Closed) (hiso : h.Isolated d) (hs : applyOp np h d op = .ok (h', d')) (i : Nat) (hi : i < h.dsets.length)
    (hne : i ≠ d ∨ op.inplaceCollect = false) : h.Untouched h' i :=
  (step_sharing hc hiso hs).2.2.2.2 i hi hne

/-- LATER OPERATIONS ON RESULTS NEVER DISTURB EARLIER DATASETS.  Take any closed heap whose start dataset `d` shares no maze
    cell and no config cell with the other datasets, and any successful finite sequence `ops1 ++ op :: ops2` of filter
    applications (each applied to the previous result).  Let `(h1, d1)` be the state just before `op`.  Then every dataset
    object `i` that existed at that moment and is not `op`'s in-place target (`i ≠ d1`, or `op` is not an in-place
    collection) is `Untouched` from `h1` to the FINAL heap `h'` — by `op` and by everything after it: its maze list, the
    contents of its maze cells (`generation_meta` included), its collected metadata, its config reference and the content
    of its config cell are the same, and it views exactly as before. -/
theorem C08_history_untouched (np : Percentile) (ops1 : List Op) (op : Op) (ops2 : List Op) (h : Heap) (d : Nat)
    (h' : Heap) (d' : Nat) (hc : h.Closed) (hiso : h.Isolated d)
    (hr : runSeq np h d (ops1 ++ op :: ops2) = .ok (h', d')) :
    ∃ h1 d1, runSeq np h d ops1 = .ok (h1, d1) ∧
      ∀ i, i < h1.dsets.length → (i ≠ d1 ∨ op.inplaceCollect = false) → h1.Untouched h' i ∧ h'.view i = h1.view i := by
  rw [runSeq_append] at hr
  cases h1r : runSeq np h d ops1 with
  | error e => rw [h1r] at hr; cases hr
  | ok res =>
    obtain ⟨h1, d1⟩ := res
    rw [h1r] at hr
    simp only at hr
    refine ⟨h1, d1, rfl, fun i hi hne => ?_⟩
    obtain ⟨c1, i1, _, _, _⟩ := runSeq_sharing np ops1 h d h1 d1 hc hiso h1r
    unfold runSeq at hr
    split at hr
    · cases hr
    · next h2 d2 hs =>
      obtain ⟨c2, i2, l2, hd2, u2⟩ := step_sharing c1 i1 hs
      obtain ⟨_, _, _, _, u3⟩ := runSeq_sharing np ops2 h2 d2 h' d' c2 i2 hr
      have hne2 : i ≠ d2 := by
        rcases hd2 with ⟨hop, e⟩ | ⟨_, e⟩
        · rcases hne with hne | hne
          · rw [e]; exact hne
          · rw [hop] at hne; cases hne
        · omega
      have hu := (u2 i hi hne).trans (u3 i (by omega) hne2)
      exact ⟨hu, hu.view_eq.1⟩

/-- the start dataset itself: as long as no in-place collection is among the operations, the start dataset (and every
    other dataset of the start heap) is untouched by the whole sequence — the property's "the input dataset's mazes and
    configuration are left unchanged", over all finite sequences, maze CONTENTS included -/
theorem C08_start_untouched (np : Percentile) (ops : List Op) (h : Heap) (d : Nat) (h' : Heap) (d' : Nat)
    (hc : h.Closed) (hiso : h.Isolated d) (hops : ∀ op ∈ ops, op.inplaceCollect = false)
    (hr : runSeq np h d ops = .ok (h', d')) (i : Nat) (hi : i < h.dsets.length) :
    h.Untouched h' i ∧ h'.view i = h.view i := by
  cases ops with
  | nil =>
    simp only [runSeq, Except.ok.injEq, Prod.mk.injEq] at hr
    obtain ⟨rfl, rfl⟩ := hr
    exact ⟨Heap.Untouched.refl _ _, rfl⟩
  | cons op ops =>
    obtain ⟨h1, d1, h1r, hu⟩ := C08_history_untouched np [] op ops h d h' d' hc hiso (by simpa using hr)
    simp only [runSeq, Except.ok.injEq, Prod.mk.injEq] at h1r
    obtain ⟨rfl, rfl⟩ := h1r
    exact hu i hi (Or.inr (hops op (by simp)))

private def shMaze : Maze :=
  { shape := [2, 1, 1], conn := [false, false], startPos := (0, 0), endPos := (0, 0), sol := [(0, 0)],
    gmeta := some [("kind", .scalar "a")] }
/-- dataset #1 references the maze cell of dataset #0 — what `custom_maze_filter` produced before the repair -/
private def shHeap : Heap :=
  { cfgs := [{ base := 0, nMazes := 1, applied := [] }, { base := 0, nMazes := 1, applied := [] }],
    mazes := [shMaze], dsets := [{ cfg := 0, mazes := [0], gmc := none }, { cfg := 1, mazes := [0], gmc := none }] }
private def shOp : Op := .reg { name := "collect_generation_meta", args := [], kwargs := [] }

/-- the hypothesis "no sharing" cannot be dropped, and this is exactly the repaired defect: there is a closed heap in which
    dataset #1 references a maze cell of dataset #0 (what `custom_maze_filter` produced before the repair) and on which the
    documented in-place collection on #1 succeeds, returns #1, and changes what dataset #0 — not the target — views
    (`generation_meta` of its maze is stripped) -/
theorem C08_sharing_breaks_history :
    ∃ (np : Percentile) (h : Heap) (op : Op) (h' : Heap), h.Closed ∧ ¬ h.Isolated 1 ∧ op.inplaceCollect = true ∧
      applyOp np h 1 op = .ok (h', 1) ∧ h'.view 0 ≠ h.view 0 ∧
      (h.view 0).map (fun x => x.2.2.map (·.gmeta.isSome)) = some [true] ∧
      (h'.view 0).map (fun x => x.2.2.map (·.gmeta.isSome)) = some [false] := by
  refine ⟨fun _ _ => .error .other, shHeap, shOp,
    { cfgs := [{ base := 0, nMazes := 1, applied := [] },
               { base := 0, nMazes := 1, applied := [{ name := "collect_generation_meta", args := some [], kwargs := [] }] }],
      mazes := [{ shMaze with gmeta := none }],
      dsets := [{ cfg := 0, mazes := [0], gmc := none }, { cfg := 1, mazes := [0], gmc := some [("kind", [(.atom "a", 1)])] }] },
    ?_, ?_, by decide, by rfl, by decide, by decide, by decide⟩
  · apply closed_of_views
    intro i hi
    have : i = 0 ∨ i = 1 := by simp [shHeap] at hi; omega
    rcases this with rfl | rfl <;> decide
  · intro hiso
    exact (hiso { cfg := 1, mazes := [0], gmc := none } 0 { cfg := 0, mazes := [0], gmc := none } rfl rfl (by decide)).2 0 (by simp) (by simp)

/-! ## the full statement, kept visible -/

/-- C08 in the model, the clauses that are not per-filter: (1) nothing that existed is disturbed by any filter application
    but the documented in-place metadata collection, (2) provenance for every finite sequence of applications, (3) exact
    metadata counts, (4) history: along every finite sequence of applications started on a dataset that shares no cell with
    the others, every dataset that existed before an operation and is not that operation's in-place target is `Untouched`
    (maze list, maze cell contents incl. `generation_meta`, collected metadata, config) by it and by all later operations,
    and "no sharing" itself is preserved.  The per-filter selection clauses are `C08_path_length` … `C08_custom` (each with
    `C08_copied_spec`), the in-place collection is `C08_collect_inplace`, config-driven = by hand is
    `C08_from_config_eq_by_hand`; all are proved, none is partial. -/
def C08_full : Prop :=
  (∀ (np : Percentile) (h : Heap) (d : Nat) (op : Op) (h' : Heap) (d' : Nat), op.inplaceCollect = false →
      applyOp np h d op = .ok (h', d') →
      h.cfgs <+: h'.cfgs ∧ h.mazes <+: h'.mazes ∧ h.dsets <+: h'.dsets ∧ d' = h.dsets.length ∧ h'.view d = h.view d) ∧
  (∀ (np : Percentile) (ops : List Op) (h : Heap) (d : Nat) (h' : Heap) (d' : Nat) (c : Cfg),
      runSeq np h d ops = .ok (h', d') → cfgOf h d = some c →
      ∃ c', cfgOf h' d' = some c' ∧ c'.applied = c.applied ++ ops.map Op.record ∧
        (ops ≠ [] → ∃ ds', h'.dsets[d']? = some ds' ∧ c'.nMazes = ds'.mazes.length)) ∧
  (∀ (clear allowFail : Bool) (mz : List Maze) (as : List Nat) (mz' : List Maze) (g' : Collected), as.Nodup →
      (∀ a ∈ as, ∃ m kv, mz[a]? = some m ∧ m.gmeta = some kv) → collectLoop clear allowFail mz [] as = .ok (mz', g') →
      ∀ k v, (g'.get k).get v = occAll mz k v as) ∧
  (∀ (np : Percentile) (ops1 : List Op) (op : Op) (ops2 : List Op) (h : Heap) (d : Nat) (h' : Heap) (d' : Nat),
      h.Closed → h.Isolated d → runSeq np h d (ops1 ++ op :: ops2) = .ok (h', d') →
      ∃ h1 d1, runSeq np h d ops1 = .ok (h1, d1) ∧
        ∀ i, i < h1.dsets.length → (i ≠ d1 ∨ op.inplaceCollect = false) → h1.Untouched h' i ∧ h'.view i = h1.view i) ∧
  (∀ (np : Percentile) (ops : List Op) (h : Heap) (d : Nat) (h' : Heap) (d' : Nat),
      h.Closed → h.Disjoint → runSeq np h d ops = .ok (h', d') → h'.Closed ∧ h'.Disjoint)

theorem C08_full_holds : C08_full := by
  refine ⟨?_, ?_, ?_, ?_, ?_⟩
  · intro np h d op h' d' hop hs
    obtain ⟨a, b, c, e, _, f⟩ := C08_input_untouched np h d op h' d' hop hs
    exact ⟨a, b, c, e, f⟩
  · intro np ops h d h' d' c hr hc
    obtain ⟨c', a, b, _, e⟩ := C08_provenance np ops h d h' d' c hr hc
    exact ⟨c', a, b, e⟩
  · intro clear allowFail mz as mz' g' hnd hall hl k v
    exact C08_meta_counts clear allowFail mz as mz' g' hnd hall hl k v
  · intro np ops1 op ops2 h d h' d' hc hiso hr
    exact C08_history_untouched np ops1 op ops2 h d h' d' hc hiso hr
  · intro np ops h d h' d' hc hdis hr
    exact C08_no_sharing_seq np ops h d h' d' hc hdis hr

/-! ## non-vacuity: a concrete heap on which every theorem's hypotheses are met and the functions do something -/

private def mk (conn : List Bool) (sol : List Cell) (gm : Option Meta) : Maze :=
  { shape := [2, 2, 2], conn := conn, startPos := sol.headD (0, 0), endPos := sol.getLastD (0, 0), sol := sol, gmeta := gm }
private def cA : List Bool := [false, true, false, false, true, false, true, false]
private def cB : List Bool := [true, true, false, false, false, false, true, false]
private def gmA : Meta := [("kind", .scalar "a"), ("cells", .set [[0, 0], [0, 1]]), ("origin", .arr1 [0, 1])]
private def gmB : Meta := [("kind", .scalar "b"), ("cells", .set [[0, 0]]), ("trail", .arr2 [[1, 1], [0, 0]])]
/-- six mazes: exact duplicates at positions 0/2, a near duplicate (one solution coordinate) at 1/5, ties in length -/
private def exHeap : Heap :=
  { cfgs := [{ base := 7, nMazes := 6, applied := [] }],
    mazes := [mk cA [(0, 1), (1, 1)] (some gmA), mk cA [(1, 1), (0, 1), (0, 0)] (some gmB), mk cA [(0, 1), (1, 1)] (some gmA),
              mk cB [(1, 1), (1, 0)] (some gmA), mk cA [(0, 0), (0, 1), (1, 1), (1, 0)] (some gmB),
              mk cA [(1, 1), (0, 1), (0, 1)] (some gmB)],
    dsets := [{ cfg := 0, mazes := [0, 1, 2, 3, 4, 5], gmc := none }] }
private def exNp : Percentile := fun ls _ => if ls = [] then .error .IndexError else .ok (5, 2)   -- "percentile" 2.5
private def lens (r : Except Err (Heap × Nat)) : Option (List Nat) :=
  match r with
  | .ok (h', d') => (h'.view d').map (fun x => x.2.2.map (fun m => m.sol.length))
  | .error _ => none
private def call (n : String) (a : List PyLit) (kw : List (String × PyLit) := []) : Op := .reg { name := n, args := a, kwargs := kw }

example : lens (applyOp exNp exHeap 0 (call "path_length" [.int 3])) = some [3, 4, 3] := by decide
example : lens (applyOp exNp exHeap 0 (call "path_length" [] [("min_length", .int 5)])) = some [] := by decide
example : lens (applyOp exNp exHeap 0 (call "start_end_distance" [.int 2])) = some [3] := by decide
example : lens (applyOp exNp exHeap 0 (call "cut_percentile_shortest" [.float 50 1])) = some [3, 4, 3] := by decide
example : lens (applyOp exNp exHeap 0 (call "truncate_count" [.int 2])) = some [2, 3] := by decide
example : lens (applyOp exNp exHeap 0 (call "truncate_count" [.int (-1)])) = some [2, 3, 2, 2, 4] := by decide
example : lens (applyOp exNp exHeap 0 (call "remove_duplicates" [])) = some [2, 3] := by decide
example : lens (applyOp exNp exHeap 0 (call "remove_duplicates" [.none, .int 0])) = some [3, 2, 2, 4, 3] := by decide
example : lens (applyOp exNp exHeap 0 (call "remove_duplicates_fast" [])) = some [2, 3, 2, 4, 3] := by decide
example : lens (applyOp exNp exHeap 0 (call "strip_generation_meta" [])) = some [2, 3, 2, 2, 4, 3] := by decide
example : lens (applyOp exNp exHeap 0 (.custom "lenmod" (fun m => m.sol.length % 2 == 0) [("k", .int 2)])) = some [2, 2, 2, 4] := by decide
/-- the repaired custom filter delivers fresh maze objects (#6..#9), a fresh config (#1) and a fresh dataset object (#1) -/
example : (match applyOp exNp exHeap 0 (.custom "lenmod" (fun m => m.sol.length % 2 == 0) [("k", .int 2)]) with
    | .ok (h', d') => (h'.dsets[d']?).map (fun ds => (d', ds.cfg, ds.mazes, h'.mazes.length))
    | .error _ => none) = some (1, 1, [6, 7, 8, 9], 10) := by decide
/-- the start heap of the examples is closed and its only dataset is isolated / the heap is disjoint -/
private theorem exHeap_closed : exHeap.Closed := by
  apply closed_of_views
  intro i hi
  have : i = 0 := by simp [exHeap] at hi; omega
  subst this; decide
private theorem exHeap_disjoint : exHeap.Disjoint := by
  intro d ds j dj hd hj hne
  have h1 : d = 0 := by have := idx_lt_of_getElem? hd; simp [exHeap] at this; omega
  have h2 : j = 0 := by have := idx_lt_of_getElem? hj; simp [exHeap] at this; omega
  omega
example : exHeap.Closed ∧ exHeap.Isolated 0 ∧ exHeap.Disjoint := ⟨exHeap_closed, exHeap_disjoint 0, exHeap_disjoint⟩
/-- the defect scenario on the repaired model: custom filter, then the documented in-place collection (clearing) on the
    RESULT: the result's own mazes (#6..#9) are stripped, ALL mazes of the input dataset #0 keep their `generation_meta`,
    the input's config and collected metadata are as before (`C08_history_untouched` with `ops1 = [custom]`, `i = 0`) -/
example : (match runSeq exNp exHeap 0 [.custom "lenmod" (fun m => m.sol.length % 2 == 0) [("k", .int 2)], call "collect_generation_meta" []] with
    | .ok (h', d') => (h'.view 0).bind (fun v0 => (h'.view d').map (fun v1 =>
        (d', v1.2.2.length, [v0.2.2.all (fun m => m.gmeta.isSome), v1.2.2.all (fun m => m.gmeta.isNone), v0.1.gmc.isNone, v1.1.gmc.isSome,
         (h'.view 0 == exHeap.view 0)])))
    | .error _ => none) = some (1, 4, [true, true, true, true, true]) := by decide
/-- a longer history: three intermediate datasets, in-place collections on #1 (not clearing) and on #3 (clearing); #0 and #2
    never change (#2's mazes keep their metadata), #1 does not change after the run moved on from it -/
example : (match runSeq exNp exHeap 0 [.custom "lenmod" (fun _ => true) [], call "collect_generation_meta" [.bool false], call "path_length" [.int 3],
                                       .custom "lenmod" (fun m => m.sol.length % 2 == 1) [], call "collect_generation_meta" [] [("clear_in_mazes", .bool true)]],
                 runSeq exNp exHeap 0 [.custom "lenmod" (fun _ => true) [], call "collect_generation_meta" [.bool false]] with
    | .ok (h', d'), .ok (h1, _) => some (d', h'.dsets.length, [(h'.view 0 == exHeap.view 0), (h'.view 1 == h1.view 1)],
        [(h'.view 2).map (fun v => v.2.2.map (fun m => m.gmeta.isSome)), (h'.view 3).map (fun v => v.2.2.map (fun m => m.gmeta.isSome))])
    | _, _ => none) = some (3, 4, [true, true], [some [true, true, true], some [false, false]]) := by decide
/-- the documented in-place collection returns the same object; exact counts: "a" three times, (0,0) six times -/
example : (match applyOp exNp exHeap 0 (call "collect_generation_meta" []) with
    | .ok (h', d') => (h'.dsets[d']?).bind (fun ds => ds.gmc.map (fun g =>
        (d', (g.get "kind").get (.atom "a"), (g.get "cells").get (.tup [0, 0]), (g.get "trail").get (.tup [1, 1]), h'.mazes.all (fun m => m.gmeta.isNone))))
    | .error _ => none) = some (0, 3, 6, 3, true) := by decide
/-- a sequence: provenance in application order, n_mazes updated, input config untouched -/
example : (match runSeq exNp exHeap 0 [call "path_length" [.int 3], call "remove_duplicates" [], call "truncate_count" [.int 1]] with
    | .ok (h', d') => (cfgOf h' d').map (fun c => (c.applied.map (·.name), c.nMazes, d', (cfgOf h' 0).map (fun c0 => (c0.applied.length, c0.nMazes))))
    | .error _ => none) = some (["path_length", "remove_duplicates", "truncate_count"], 1, 3, some (0, 6)) := by decide
/-- after a custom filter (record with `args = ()`) further filters apply and provenance continues -/
example : (match runSeq exNp exHeap 0 [.custom "lenmod" (fun m => m.sol.length % 2 == 0) [("k", .int 2)], call "truncate_count" [.int 1],
                                       .custom "lenmod" (fun _ => true) []] with
    | .ok (h', d') => (cfgOf h' d').map (fun c => (c.applied.map (fun r => (r.name, r.args)), c.nMazes))
    | .error _ => none) = some ([("__custom__:lenmod", some []), ("truncate_count", some [.int 1]), ("__custom__:lenmod", some [])], 1) := by decide
/-- a hand-written record without `args` still makes every deepcopy of the config fail (`_load_applied_filters`) -/
example : (match applyOp exNp { exHeap with cfgs := [{ base := 7, nMazes := 6, applied := [{ name := "x", args := none, kwargs := [] }] }] } 0
      (call "truncate_count" [.int 1]) with
    | .ok _ => none | .error e => some e) = some .ValueError := by decide
/-- `collect_generation_meta(inplace=False)` on an already collected dataset: a NEW dataset object (#1) with a new config
    cell carrying both records and the same collected metadata; the input's config keeps its single record -/
example : (match runSeq exNp exHeap 0 [call "collect_generation_meta" [], call "collect_generation_meta" [] [("inplace", .bool false)]] with
    | .ok (h', d') => (cfgOf h' d').map (fun c => (d', c.applied.length, (cfgOf h' 0).map (fun c0 => c0.applied.length),
        (h'.dsets[d']?).map (fun ds => ds.gmc == (h'.dsets[0]?).bind (·.gmc)), h'.dsets.length))
    | .error _ => none) = some (1, 2, some 1, some true, 2) := by decide
example : (call "collect_generation_meta" [] [("inplace", .bool false)]).inplaceCollect = false ∧
    (call "collect_generation_meta" []).inplaceCollect = true ∧ (call "collect_generation_meta" [.bool true, .int 0]).inplaceCollect = false := by decide
/-- config-driven application on a dataset whose config lists two filters = by hand -/
private def exCfgHeap : Heap :=
  { exHeap with cfgs := [{ base := 7, nMazes := 6, applied := [{ name := "path_length", args := some [.int 3], kwargs := [] },
                                                                { name := "truncate_count", args := some [], kwargs := [("max_count", .int 2)] }] }] }
example : lens (applyFromConfig exNp exCfgHeap 0) = some [3, 4] := by decide
example : (match applyFromConfig exNp exCfgHeap 0 with
    | .ok (h', d') => (cfgOf h' d').map (fun c => (c.applied.length, c.nMazes, (cfgOf h' 0).map (fun c0 => c0.applied.length)))
    | .error _ => none) = some (2, 2, some 0) := by decide
example : (clearApplied exCfgHeap 0).isSome = true ∧ allArgs ((cfgOf exCfgHeap 0).map (·.applied) |>.getD []) = true := by decide
/-- an unknown filter name in the configuration is refused -/
example : (match applyFromConfig exNp { exHeap with cfgs := [{ base := 7, nMazes := 6, applied := [{ name := "nope", args := some [], kwargs := [] }] }] } 0 with
    | .ok _ => none | .error e => some e) = some .ValueError := by decide
/-- the empty-input percentile error propagates -/
example : (match runSeq exNp exHeap 0 [call "path_length" [.int 9], call "cut_percentile_shortest" []] with
    | .ok _ => none | .error e => some e) = some .IndexError := by decide
example : survivors (fun pre x _ => !pre.any (fun p => p.pyEq x)) [] exHeap.mazes = dedup exHeap.mazes := by decide

end MZ.Filt
