import MazeVerif.DriverOps.Util
import MazeVerif.Model.Cache
namespace MZ.Drv.C11
open Lean MZ.Drv MZ.Cache

/-! driver ops of property C11. Datasets are `DS Nat` (the payload is an id the harness assigns to a list of mazes);
    filters in the driver world are the faithful wrapper (append the record, payload id + 1) unless listed in
    `filter_raises`. -/

def asPair (j : Json) : R (String × String) := do
  match (← j.getArr?).toList with
  | [k, v] => pure ((← k.getStr?), (← v.getStr?))
  | _ => throw "pair: expected [k,v]"

def asFilter (j : Json) : R FilterRec := do
  match (← j.getArr?).toList with
  | [n, a, k] => pure ⟨← n.getStr?, ← (← a.getArr?).toList.mapM (·.getStr?), ← (← k.getArr?).toList.mapM asPair⟩
  | _ => throw "filter: expected [name,args,kwargs]"

def asCfg (j : Json) : R Cfg := do
  pure ⟨← (← getArr j "fields").mapM asPair, ← (← getArr j "filters").mapM asFilter⟩

def jPair (p : String × String) : Json := Json.arr #[Json.str p.1, Json.str p.2]
def jFilter (f : FilterRec) : Json := Json.arr #[Json.str f.name, jStrs f.args, jList jPair f.kwargs]
def jCfg (c : Cfg) : Json := obj [("fields", jList jPair c.fields), ("filters", jList jFilter c.filters)]

def asFlags (j : Json) : R Flags := do
  pure ⟨← getBool j "do_generate", ← getBool j "load_local", ← getBool j "save_local", ← getBool j "do_download",
        ← getBool j "except_on_config_mismatch", ← getBool j "allow_generation_metadata_filter_mismatch"⟩

def asRead (j : Json) : R (ReadOutcome Nat) := do
  match ← getStr j "kind" with
  | "absent" => pure .absent
  | "raises" => pure .raises
  | "other" => pure .okOther
  | "ok" => pure (.okDs ⟨← asCfg (← fld j "cfg"), ← getNat j "id"⟩)
  | k => throw s!"read kind {k}"

def jRead : ReadOutcome Nat → Json
  | .absent => obj [("kind", "absent")]
  | .raises => obj [("kind", "raises")]
  | .okOther => obj [("kind", "other")]
  | .okDs d => obj [("kind", "ok"), ("cfg", jCfg d.cfg), ("id", jNat d.mazes)]

def errName : Err → String
  | .noWayToLoad => "noWayToLoad"
  | .downloadRaised => "downloadRaised"
  | .generateRaised => "generateRaised"
  | .unknownFilter _ => "unknownFilter"
  | .filterRaised _ => "filterRaised"
  | .filterInfoMismatch => "filterInfoMismatch"
  | .failedToLoad => "failedToLoad"
  | .notADataset => "notADataset"
  | .configMismatch _ => "configMismatch"
  | .saveInterrupted => "saveInterrupted"

def jOutcome (o : Outcome Nat) : Json :=
  match o.res with
  | .ok r => obj [("res", "ok"), ("out_cfg", jCfg r.out.cfg), ("out_id", jNat r.out.mazes), ("did_load_local", r.didLoadLocal),
                  ("generated", r.generated), ("warned", r.warned), ("saved", r.saved), ("file_after", jRead o.fileAfter)]
  | .error e =>
    let extra := match e with
      | .configMismatch fs => [("fields", jStrs fs)]
      | .unknownFilter n => [("filter", Json.str n)]
      | .filterRaised n => [("filter", Json.str n)]
      | _ => []
    obj ([("res", Json.str (errName e)), ("file_after", jRead o.fileAfter)] ++ extra)

def asWorld (j : Json) : R (World Nat) := do
  let read ← asRead (← fld j "read")
  let dl ← getStr j "download"
  let download : DownloadOutcome Nat ← match dl with
    | "notImplemented" => pure .notImplemented
    | "raises" => pure .raises
    | k => throw s!"download kind {k}"
  let g ← fld j "gen"
  let gk ← getStr g "kind"
  let gid ← getNat g "id"
  let known ← (← getArr j "known").mapM (·.getStr?)
  let raises ← (← getArr j "filter_raises").mapM (·.getStr?)
  let n ← getNat j "len"
  let cut : Option (ReadOutcome Nat) ← match optFld j "save_cut" with
    | none => pure none
    | some c => do pure (some (← asRead c))
  pure { read := read, download := download,
         gen := fun c => if gk = "ok" then some ⟨c, gid⟩ else none,
         known := fun nm => known.contains nm,
         applyFilter := fun fi d => if raises.contains fi.name then none
                                    else some ⟨⟨d.cfg.fields, d.cfg.filters ++ [fi]⟩, d.mazes + 1⟩,
         len := fun _ => n,
         collected := fun d => d.cfg.filters.any (fun f => f.name = cgmRec.name),
         strip := id, saveCut := cut }

def asStep (j : Json) : R (Step Nat) := do
  match ← getStr j "step" with
  | "fault" => pure (.fault (← asRead (← fld j "file")))
  | "call" => match optFld j "cut" with
    | none => pure (.call none)
    | some c => do pure (.call (some (← asRead c)))
  | k => throw s!"step kind {k}"

/-- ops:
    `C11.from_config` {flags, cfg, read, download, gen, known, filter_raises, len, save_cut} → outcome of the model;
    `C11.diff` {a, b} → {diff:[field…], meta_allowed};
    `C11.steps` {flags, cfg, world…, file, steps:[…]} → {outcomes:[…], file}. -/
def handle (op : String) (j : Json) : R Json := do
  match op with
  | "C11.from_config" =>
    let fl ← asFlags (← fld j "flags")
    let cfg ← asCfg (← fld j "cfg")
    let w ← asWorld j
    pure (jOutcome (fromConfig fl w cfg))
  | "C11.diff" =>
    let a ← asCfg (← fld j "a")
    let b ← asCfg (← fld j "b")
    pure <| obj [("diff", jStrs (diff a b)), ("meta_allowed", metaAllowed a b)]
  | "C11.steps" =>
    let fl ← asFlags (← fld j "flags")
    let cfg ← asCfg (← fld j "cfg")
    let w ← asWorld j
    let steps ← (← getArr j "steps").mapM asStep
    let r := runSteps fl w cfg steps w.read
    pure <| obj [("outcomes", jList jOutcome r.1), ("file", jRead r.2)]
  | "C11.defaults" =>
    match defaultFlags? with
    | none => throw "from_config defaults not found"
    | some f => pure <| obj [("do_generate", f.doGenerate), ("load_local", f.loadLocal), ("save_local", f.saveLocal),
        ("do_download", f.doDownload), ("except_on_config_mismatch", f.exceptOnMismatch),
        ("allow_generation_metadata_filter_mismatch", f.allowMetaMismatch),
        ("compared", jStrs comparedFields), ("fields", jStrs allFields)]
  | _ => throw s!"unknown op {op}"

end MZ.Drv.C11
