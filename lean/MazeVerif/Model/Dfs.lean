import MazeVerif.Model.Grid
namespace MZ

structure Args where
  nAcc : Nat
  maxDepth : Int
  doForks : Bool
  randStack : Bool

structure St where
  visited : List Cell
  stack : List Cell     -- python list, top = last
  edges : List Edge
  depth : Int
  rng : List Nat

def cands (rows cols : Nat) (visited : List Cell) (cur : Cell) : List Cell :=
  (nbrs cur).filter fun nb => nb ∉ visited ∧ inGrid rows cols nb

def popIdx (a : Args) (s : St) : Option (Nat × List Nat) :=
  if a.randStack then
    match s.rng with
    | r :: rs => some (r, rs)
    | [] => none
  else some (s.stack.length - 1, s.rng)

def step (rows cols : Nat) (a : Args) (s : St) : Option St :=
  match popIdx a s with
  | none => none
  | some (i, rng1) =>
    match s.stack[i]? with
    | none => none
    | some cur =>
      let stack1 := s.stack.eraseIdx i
      let cs := cands rows cols s.visited cur
      if cs ≠ [] ∧ 2 * s.depth ≤ a.maxDepth then
        match rng1 with
        | [] => none
        | k :: rng2 =>
          match cs[k]? with
          | none => none
          | some nb =>
            some { visited := s.visited ++ [nb]
                   stack := (if a.doForks ∧ cs.length > 1 then stack1 ++ [cur] else stack1) ++ [nb]
                   edges := s.edges ++ [edgeOf cur nb]
                   depth := s.depth + 1
                   rng := rng2 }
      else some { s with stack := stack1, depth := s.depth - 1, rng := rng1 }

def loop (rows cols : Nat) (a : Args) : Nat → St → Option St
  | 0, _ => none
  | fuel + 1, s =>
    if s.stack ≠ [] ∧ s.visited.length < a.nAcc then
      match step rows cols a s with
      | some s' => loop rows cols a fuel s'
      | none => none
    else some s

def init (start : Cell) (rng : List Nat) : St :=
  { visited := [start], stack := [start], edges := [], depth := 1, rng := rng }

def genDfs (rows cols : Nat) (a : Args) (start : Cell) (rng : List Nat) (fuel : Nat) : Option St :=
  loop rows cols a fuel (init start rng)

/-- relational summary of one loop iteration -/
inductive Step (rows cols : Nat) (a : Args) (s : St) : St → Prop
  | extend (i : Nat) (cur nb : Cell) (rng' : List Nat)
      (hcur : s.stack[i]? = some cur)
      (hnb : nb ∈ cands rows cols s.visited cur)
      (hdepth : 2 * s.depth ≤ a.maxDepth) :
      Step rows cols a s
        { visited := s.visited ++ [nb]
          stack := (if a.doForks ∧ (cands rows cols s.visited cur).length > 1 then s.stack.eraseIdx i ++ [cur] else s.stack.eraseIdx i) ++ [nb]
          edges := s.edges ++ [edgeOf cur nb]
          depth := s.depth + 1
          rng := rng' }
  | back (i : Nat) (cur : Cell) (rng' : List Nat)
      (hcur : s.stack[i]? = some cur)
      (hwhy : cands rows cols s.visited cur = [] ∨ ¬ 2 * s.depth ≤ a.maxDepth) :
      Step rows cols a s { s with stack := s.stack.eraseIdx i, depth := s.depth - 1, rng := rng' }

theorem step_spec {rows cols a s s'} (h : step rows cols a s = some s') : Step rows cols a s s' := by
  unfold step at h
  split at h
  · simp at h
  · split at h
    · simp at h
    · next hcur =>
      simp only at h
      split at h
      · next hc =>
        split at h
        · simp at h
        · split at h
          · simp at h
          · next hnb =>
            simp only [Option.some.injEq] at h
            subst h
            exact Step.extend _ _ _ _ hcur (List.mem_of_getElem? hnb) hc.2
      · next hc =>
        simp only [Option.some.injEq] at h
        subst h
        refine Step.back _ _ _ hcur ?_
        rename_i cur
        by_cases h1 : cands rows cols s.visited cur = []
        · exact Or.inl h1
        · right; intro h2; exact hc ⟨h1, h2⟩

end MZ
