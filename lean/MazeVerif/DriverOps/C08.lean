import MazeVerif.DriverOps.Util
import MazeVerif.Model.Filters
namespace MZ.Drv.C08
open Lean MZ.Drv MZ.Filt MZ.Gen

/-! driver ops of property C08 (`"op": "C08.<name>"`)

* `C08.seq` `{heap, start, mode: "seq"|"from_config", ops, np}` → `{steps: [...]}`: the model heap after EACH operation
  (configs and dataset objects in full, maze objects only where new or changed), or the error of the first failing op.
* `C08.table` → the generated filter table as the model sees it. -/

def litOf (j : Json) : R PyLit :=
  match j with
  | .null => pure .none
  | .bool b => pure (.bool b)
  | .str s => pure (.str s)
  | .num _ => do pure (.int (← j.getInt?))
  | .obj _ => do
    match (← getArr j "f") with
    | [n, d] => pure (.float (← n.getInt?) (← d.getNat?))
    | _ => throw "float literal: expected {f:[num,den]}"
  | _ => throw "literal: unsupported JSON"

def jLit : PyLit → Json
  | .none => Json.null
  | .bool b => Json.bool b
  | .int i => jInt i
  | .float n d => obj [("f", Json.arr #[jInt n, jNat d])]
  | .str s => Json.str s

def kwOf (j : Json) : R (List (String × PyLit)) := do
  (← j.getArr?).toList.mapM fun kv => do
    match (← kv.getArr?).toList with
    | [k, v] => pure ((← k.getStr?), (← litOf v))
    | _ => throw "kwargs: expected [[key, value], …]"

def jKw (kw : List (String × PyLit)) : Json := jList (fun kv => Json.arr #[Json.str kv.1, jLit kv.2]) kw

def recOf (j : Json) : R FilterRec := do
  let args ← match optFld j "args" with
    | none => pure none
    | some a => do pure (some (← (← a.getArr?).toList.mapM litOf))
  pure { name := (← getStr j "name"), args := args, kwargs := (← kwOf (← fld j "kwargs")) }

def jRec (r : FilterRec) : Json :=
  obj ([("name", Json.str r.name), ("kwargs", jKw r.kwargs)] ++
       (match r.args with | some a => [("args", jList jLit a)] | none => []))

def intRows (j : Json) : R (List (List Int)) := do (← j.getArr?).toList.mapM asIntList

def metaValOf (j : Json) : R MetaVal := do
  if let some s := optFld j "s" then return .scalar (← s.getStr?)
  if let some s := optFld j "set" then return .set (← intRows s)
  if let some s := optFld j "a1" then return .arr1 (← asIntList s)
  if let some s := optFld j "a2" then return .arr2 (← intRows s)
  return .other

def jMetaVal : MetaVal → Json
  | .scalar s => obj [("s", Json.str s)]
  | .set cs => obj [("set", jList jInts cs)]
  | .arr1 c => obj [("a1", jInts c)]
  | .arr2 rows => obj [("a2", jList jInts rows)]
  | .other => obj [("o", jNat 1)]

def metaOf (j : Json) : R Meta := do
  (← j.getArr?).toList.mapM fun kv => do
    match (← kv.getArr?).toList with
    | [k, v] => pure ((← k.getStr?), (← metaValOf v))
    | _ => throw "meta: expected [[key, value], …]"

def bitsOf (s : String) : List Bool := s.toList.map (· == '1')
def jBits (l : List Bool) : Json := Json.str (String.ofList (l.map fun b => if b then '1' else '0'))

def mazeOf (j : Json) : R Maze := do
  let gm ← match optFld j "meta" with
    | none => pure none
    | some m => do pure (some (← metaOf m))
  pure { shape := (← getNatList j "shape"), conn := bitsOf (← getStr j "conn"), startPos := (← getCell j "start"),
         endPos := (← getCell j "end"), sol := (← getCells j "sol"), gmeta := gm }

def jMaze (m : Maze) : Json :=
  obj [("shape", jNats m.shape), ("conn", jBits m.conn), ("start", jCell m.startPos), ("end", jCell m.endPos),
       ("sol", jCells m.sol),
       ("meta", match m.gmeta with
                | none => Json.null
                | some kv => jList (fun p => Json.arr #[Json.str p.1, jMetaVal p.2]) kv)]

def jVal : Val → Json
  | .atom s => obj [("a", Json.str s)]
  | .tup c => obj [("t", jInts c)]

def valOf (j : Json) : R Val := do
  if let some s := optFld j "a" then return .atom (← s.getStr?)
  return .tup (← getIntList j "t")

def jCollected (g : Collected) : Json :=
  jList (fun kc => Json.arr #[Json.str kc.1, jList (fun vn => Json.arr #[jVal vn.1, jNat vn.2]) kc.2]) g

def collectedOf (j : Json) : R Collected := do
  (← j.getArr?).toList.mapM fun kc => do
    match (← kc.getArr?).toList with
    | [k, c] => do
      let cs ← (← c.getArr?).toList.mapM fun vn => do
        match (← vn.getArr?).toList with
        | [v, n] => pure ((← valOf v), (← n.getNat?))
        | _ => throw "counter entry"
      pure ((← k.getStr?), cs)
    | _ => throw "collected entry"

def cfgOf (j : Json) : R Cfg := do
  pure { base := (← getNat j "base"), nMazes := (← getNat j "n_mazes"), applied := (← (← getArr j "applied").mapM recOf) }

def jCfg (c : Cfg) : Json := obj [("base", jNat c.base), ("n_mazes", jNat c.nMazes), ("applied", jList jRec c.applied)]

def dsOf (j : Json) : R DS := do
  let g ← match optFld j "gmc" with
    | none => pure none
    | some x => do pure (some (← collectedOf x))
  pure { cfg := (← getNat j "cfg"), mazes := (← getNatList j "mazes"), gmc := g }

def jDS (d : DS) : Json :=
  obj [("cfg", jNat d.cfg), ("mazes", jNats d.mazes),
       ("gmc", match d.gmc with | none => Json.null | some g => jCollected g)]

def heapOf (j : Json) : R Heap := do
  pure { cfgs := (← (← getArr j "cfgs").mapM cfgOf), mazes := (← (← getArr j "mazes").mapM mazeOf),
         dsets := (← (← getArr j "dsets").mapM dsOf) }

def errName : Err → String
  | .ValueError => "ValueError" | .AssertionError => "AssertionError" | .IndexError => "IndexError"
  | .TypeError => "TypeError" | .KeyError => "KeyError" | .other => "other"

def errOf (s : String) : Err :=
  match s with
  | "ValueError" => .ValueError | "AssertionError" => .AssertionError | "IndexError" => .IndexError
  | "TypeError" => .TypeError | "KeyError" => .KeyError | _ => .other

/-- the `np.percentile` parameter as a finite table recorded by the harness from numpy itself; a miss is reported as
    `Err.other` together with a flag in the reply -/
def npOf (j : Json) : R (List (List Nat × PyLit × Except Err (Int × Nat))) := do
  (← j.getArr?).toList.mapM fun e => do
    let ls ← getNatList e "lengths"
    let q ← litOf (← fld e "q")
    match optFld e "err" with
    | some s => pure (ls, q, .error (errOf (← s.getStr?)))
    | none =>
      match (← getArr e "val") with
      | [n, d] => pure (ls, q, .ok ((← n.getInt?), (← d.getNat?)))
      | _ => throw "np entry: val = [num, den]"

def npFun (tbl : List (List Nat × PyLit × Except Err (Int × Nat))) : Percentile := fun ls q =>
  match tbl.find? (fun e => e.1 == ls && e.2.1 == q) with
  | some e => e.2.2
  | none => .error .KeyError      -- table miss: the harness never sends KeyError as a numpy outcome

/-- the small family of custom predicates the harness uses with `custom_maze_filter` -/
def predOf (j : Json) : R (Maze → Bool) := do
  if let some a := optFld j "lenmod" then
    match (← asNatList a) with
    | [k, r] => return fun m => m.sol.length % k == r
    | _ => throw "lenmod: [k, r]"
  if let some a := optFld j "startrow_le" then
    let x ← a.getInt?
    return fun m => decide (m.startPos.1 ≤ x)
  throw "unknown custom predicate"

def opOf (j : Json) : R Op := do
  match (← getStr j "kind") with
  | "reg" =>
    pure (.reg { name := (← getStr j "name"), args := (← (← getArr j "args").mapM litOf), kwargs := (← kwOf (← fld j "kwargs")) })
  | "custom" =>
    pure (.custom (← getStr j "fname") (← predOf (← fld j "pred")) (← kwOf (← fld j "kwargs")))
  | k => throw s!"unknown op kind {k}"

/-- heap snapshot: configs and datasets in full, mazes only where they differ from `prev` -/
def jHeapDelta (prev : List Maze) (h : Heap) : Json :=
  let changed := (List.range h.mazes.length).filterMap fun a =>
    match h.mazes[a]? with
    | none => none
    | some m => if prev[a]? == some m then none else some (Json.arr #[jNat a, jMaze m])
  obj [("cfgs", jList jCfg h.cfgs), ("dsets", jList jDS h.dsets), ("n_mazes_objs", jNat h.mazes.length),
       ("mazes", Json.arr changed.toArray)]

def runSteps (np : Percentile) : Heap → Nat → List Op → List Json → List Json
  | _, _, [], acc => acc.reverse
  | h, d, op :: ops, acc =>
    match applyOp np h d op with
    | .error e => (obj [("ok", false), ("err", Json.str (errName e))] :: acc).reverse
    | .ok (h1, d1) => runSteps np h1 d1 ops (obj [("ok", true), ("d", jNat d1), ("heap", jHeapDelta h.mazes h1)] :: acc)

def jTable : Json :=
  jList (fun e => Json.arr #[Json.str e.1, Json.str e.2.1,
    jList (fun p => Json.arr #[Json.str p.1, match p.2 with | some v => obj [("d", jLit v)] | none => Json.null]) e.2.2]) filterTable

def handle (op : String) (j : Json) : R Json := do
  match op with
  | "C08.seq" =>
    let h ← heapOf (← fld j "heap")
    let d ← getNat j "start"
    let np := npFun (← npOf (← fld j "np"))
    match (← getStr j "mode") with
    | "seq" =>
      let ops ← (← getArr j "ops").mapM opOf
      pure <| obj [("steps", Json.arr (runSteps np h d ops []).toArray)]
    | "from_config" =>
      match applyFromConfig np h d with
      | .error e => pure <| obj [("steps", Json.arr #[obj [("ok", false), ("err", Json.str (errName e))]])]
      | .ok (h1, d1) =>
        -- also the by-hand run the theorem `C08_from_config_eq_by_hand` speaks about
        let byHand := match clearApplied h d with
          | none => Json.null
          | some (h0, old) =>
            match runSeq np h0 d (old.map fun r => Op.reg (callOfRec r)) with
            | .error e => Json.str (errName e)
            | .ok (h2, d2) => obj [("d", jNat d2), ("same_as_from_config", decide (d2 = d1 ∧ (updateSelfConfig h2 d2) = some h1))]
        pure <| obj [("steps", Json.arr #[obj [("ok", true), ("d", jNat d1), ("heap", jHeapDelta h.mazes h1)]]), ("by_hand", byHand)]
    | m => throw s!"unknown mode {m}"
  | "C08.table" => pure jTable
  | _ => throw s!"unknown op {op}"

end MZ.Drv.C08
