import MazeVerif.Model.Grid
namespace MZ

def gridNbrs (rows cols : Nat) (c : Cell) : List Cell := (nbrs c).filter (fun x => inGrid rows cols x)

/-- the loop-erased random walk of `gen_wilson`'s inner while loop; `path` is never empty, `current = path[-1]` -/
def walk (rows cols : Nat) (vis : List Cell) : Nat → List Cell → List Nat → Option (List Cell × List Nat)
  | 0, _, _ => none
  | fuel + 1, path, rng =>
    if path.getLast! ∈ vis then some (path, rng)
    else
      match rng with
      | [] => none
      | k :: rng' =>
        match (gridNbrs rows cols path.getLast!)[k]? with
        | none => none
        | some nx =>
          if nx ∈ path then walk rows cols vis fuel (path.take (path.idxOf nx + 1)) rng'
          else walk rows cols vis fuel (path ++ [nx]) rng'

structure WSt where
  vis : List Cell
  E : List Edge
  rng : List Nat

def outer (rows cols : Nat) : Nat → WSt → Option WSt
  | 0, _ => none
  | fuel + 1, s =>
    let unv := (cells rows cols).filter (fun c => c ∉ s.vis)
    if unv = [] then some s
    else
      match s.rng with
      | [] => none
      | k :: rng1 =>
        match unv[k]? with
        | none => none
        | some u =>
          match walk rows cols s.vis fuel [u] rng1 with
          | none => none
          | some (path, rng2) =>
            outer rows cols fuel { vis := s.vis ++ path.dropLast, E := s.E ++ pathEdges path, rng := rng2 }

def genWilson (rows cols : Nat) (start : Cell) (rng : List Nat) (fuel : Nat) : Option WSt :=
  outer rows cols fuel { vis := [start], E := [], rng := rng }

end MZ
