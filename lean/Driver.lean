import MazeVerif.DriverOps.Util
import MazeVerif.DriverOps.C01
import MazeVerif.DriverOps.C02
import MazeVerif.DriverOps.C03
import MazeVerif.DriverOps.C04
import MazeVerif.DriverOps.C05
import MazeVerif.DriverOps.C06
import MazeVerif.DriverOps.C07
import MazeVerif.DriverOps.C08
import MazeVerif.DriverOps.C09
import MazeVerif.DriverOps.C10
import MazeVerif.DriverOps.C11
import MazeVerif.DriverOps.C12
import MazeVerif.DriverOps.C13
import MazeVerif.DriverOps.C14
import MazeVerif.DriverOps.C15
import MazeVerif.DriverOps.C16
import MazeVerif.DriverOps.C17
import MazeVerif.DriverOps.C18
import MazeVerif.DriverOps.C19
import MazeVerif.DriverOps.C20
/-! Line protocol driver: one JSON request per line on stdin, one JSON reply per line on stdout.
    Requests carry `"op": "<Cxx>.<name>"`; the prefix selects the per-property handler in `MazeVerif/DriverOps/<Cxx>.lean`.
    Imports only Mathlib-free modules so it links as an executable. -/
open Lean MZ.Drv

def dispatch (j : Json) : R Json := do
  let op ← getStr j "op"
  match (op.splitOn ".").head! with
  | "C01" => C01.handle op j
  | "C02" => C02.handle op j
  | "C03" => C03.handle op j
  | "C04" => C04.handle op j
  | "C05" => C05.handle op j
  | "C06" => C06.handle op j
  | "C07" => C07.handle op j
  | "C08" => C08.handle op j
  | "C09" => C09.handle op j
  | "C10" => C10.handle op j
  | "C11" => C11.handle op j
  | "C12" => C12.handle op j
  | "C13" => C13.handle op j
  | "C14" => C14.handle op j
  | "C15" => C15.handle op j
  | "C16" => C16.handle op j
  | "C17" => C17.handle op j
  | "C18" => C18.handle op j
  | "C19" => C19.handle op j
  | "C20" => C20.handle op j
  | "ping" => pure (obj [("pong", true)])
  | p => throw s!"no handler for prefix {p}"

partial def loop (h : IO.FS.Stream) (out : IO.FS.Stream) : IO Unit := do
  let line ← h.getLine
  if line.isEmpty then return ()
  if line.trimAscii.isEmpty then loop h out else
  let reply := match Json.parse line with
    | .error e => obj [("error", Json.str s!"parse: {e}")]
    | .ok j => match dispatch j with
      | .ok r => r
      | .error e => obj [("error", Json.str e)]
  out.putStrLn (Json.compress reply)
  loop h out

def main : IO Unit := do
  let out ← IO.getStdout
  loop (← IO.getStdin) out
  out.flush
