"""C01 — generators emit well-formed lattice graphs; DFS and Wilson emit spanning trees.
Correspondence: every real generator run is replayed by the Lean model on the tapped draws and must agree bit for bit."""
import itertools
import gens

RULE = ("random (generator x shape 1x1..8x8 incl. 1xk/kx1/oblong x every keyword argument incl. float/int/None accessible_cells and "
        "max_tree_depth, do_forks, randomized_stack, start_coord, p in {0,.1,.4,.7,1,random}); start_coord is a grid cell or (about 8% of "
        "the cases carrying one, plus a fixed block on every run) NOT a cell of the grid: one past each edge, negative, far outside, "
        "wrong-length tuple - there the real code must raise ValueError before consuming randomness and the model must be in its "
        "start-rejected error branch, and a RETURNED maze is a violation; RNG draws tapped from the real run; "
        "plus exhaustive enumeration of EVERY python-random choice sequence of default gen_dfs/gen_prim on small grids; "
        "non-trivial = run produced at least one connection or consumed a draw; distinct = distinct (case, draw sequence); later additions: both call routes (LatticeMazeGenerators.gen_x and GENERATORS_MAP['gen_x']), the documented default p (argument omitted in 1 of 8 percolation cases), start_coord as the caller's own numpy array that the caller increments right after the call, small-integer grid-shape dtypes, long thin grids, scripted Wilson walks of 70*(rows*cols)^2 steps on small grids (incl. a 1x4 strip), generate_random_path() on every generated maze, get_neighbors_in_bounds results converted in place by the caller before any generator runs")
ASSUMPTIONS = ["a start_coord that is not a pair of integers is outside the model's type Cell = Int x Int: the driver answers start_wrong_length without evaluating a model function; that the real code raises ValueError for it is checked on the real code only",
               "the recording shims on numpy.random.* and generators.random delegate to the real RNGs (a tapped run is a genuine run)",
               "numpy/CPython semantics of np.argmax, np.where order, set membership as modelled (validated by exact agreement on every run)",
               "lattice_dim != 2 is not modelled (the code raises NotImplementedError)"]
TRUSTED = ["IEEE double arithmetic of Lean `Float` in the driver-side argument conversion int(x*n) (not in any theorem)"]
PROP = "C01"
ORACLE = staticmethod(gens.oracle_c01) if False else gens.oracle_c01


def _one(ctx, case, script=None, pending=None, rand_script=None):
    try:
        impl, _ = gens.run_impl(case, script, rand_script)
    except gens.GeneratorRaised as e:
        bad = gens.judge_raise(case, e)
        ctx.case([str(case), "raised", e.kind], nontrivial=bad is None)
        if bad:
            ctx.violate(f"{case['gen']} {case['rows']}x{case['cols']} {case['kwargs']}: {bad}", dict(case=case, error=str(e)), key="start-coord-outside-grid" if gens.start_outside(case) else "unlisted")
        else:
            # the documented error branch: ValueError for a start_coord that is not a cell of the grid; the model must be in
            # its error branch for that very reason
            ctx.count(f"gen={case['gen']}"); ctx.count("start_coord_rejected=" + gens.start_outside(case))
            if pending is not None:
                rimpl = dict(rejected=True, draws=[], rands=[], edges=[])
                pending.append((case, rimpl, gens.request(case, rimpl)))
        return None
    bad = gens.judge_returned_for_outside(case, impl)
    if bad:
        ctx.case(gens_canon(case, impl))
        ctx.violate(f"{case['gen']} {case['rows']}x{case['cols']} {case['kwargs']}: {bad}", dict(case=case, draws=impl["draws"], rands=impl["rands"], edges=impl["edges"], meta={k: impl[k] for k in ('fully_connected','visited','start','n_accessible_cells','max_tree_depth')}), key="start-coord-outside-grid")
        if pending is not None: pending.append((case, impl, gens.request(case, impl)))
        return impl
    ctx.case(gens_canon(case, impl), nontrivial=bool(impl["edges"]) or bool(impl["draws"]))
    ctx.count(f"gen={case['gen']}"); ctx.count(f"cells={min(case['rows']*case['cols'], 64)//8*8}+")
    for k in case["kwargs"]: ctx.count(f"kw={k}")
    bad = ORACLE(case, impl)
    if bad:
        if case.get("start_as_array"): bad += " [start_coord was passed as the caller's own numpy array, which the caller incremented in place after the generator had returned and before the metadata was read]"
        ctx.violate(f"{case['gen']} {case['rows']}x{case['cols']} {case['kwargs']}: {bad}", dict(case=case, draws=impl["draws"], rands=impl["rands"], edges=impl["edges"], meta={k: impl[k] for k in ('fully_connected','visited','start','n_accessible_cells','max_tree_depth')}))
    if pending is not None: pending.append((case, impl, gens.request(case, impl)))
    return impl


def gens_canon(case, impl):
    return [case["gen"], case["rows"], case["cols"], sorted((k, str(v)) for k, v in case["kwargs"].items()), impl["draws"], len(impl["rands"])]


def exhaustive_dfs(ctx, shapes, pending, limit):
    """every python-random choice sequence of the default DFS from every start, plain and randomized stack"""
    n = 0
    for (r, c) in shapes:
        for rs in (False, True):
            for start in itertools.product(range(r), range(c)):
                stack = [[]]
                while stack:
                    script = stack.pop()
                    case = dict(gen="dfs", rows=r, cols=c, kwargs=dict(start_coord=start, randomized_stack=rs))
                    impl = _one(ctx, case, script, pending)
                    n += 1
                    if impl is None:
                        continue
                    ar = impl["arities"]
                    # children: extend the script at the first position beyond its length
                    for pos in range(len(script), len(ar)):
                        for k in range(1, ar[pos]):
                            stack.append(impl["draws"][:pos] + [k])
                    if n >= limit:
                        return n, False
    return n, True


def _special(ctx, pending):
    """long thin grids and very long Wilson walks (scale- and budget-dependent behaviour)"""
    # long thin grids: sides beyond 127/128/255/256 (narrow integer types), every generator, start anywhere
    big = [(1, 200), (200, 1), (2, 150), (150, 2), (1, 300), (3, 130), (130, 3), (1, 129), (257, 1)]
    for rep in range(2 if ctx.quick else 12):
        for (r, c) in big:
            for gen in ("dfs", "prim", "dfs_percolation", "percolation"):
                kw = {}
                if gen in ("percolation", "dfs_percolation"): kw["p"] = ctx.rng.choice([0.0, 0.3, 1.0])
                if ctx.rng.random() < 0.3: kw["start_coord"] = (ctx.rng.randrange(r), ctx.rng.randrange(c))
                if gen == "dfs" and ctx.rng.random() < 0.3: kw["accessible_cells"] = ctx.rng.choice([r * c - 1, r * c // 2, 140])
                _one(ctx, dict(gen=gen, rows=r, cols=c, kwargs=kw), None, pending)
                ctx.count("long_thin_grid")
    for (r, c) in [(1, 130), (130, 1)]:
        _one(ctx, dict(gen="wilson", rows=r, cols=c, kwargs={}), None, pending); ctx.count("long_thin_grid")
    # the grid shape handed over as a small-integer array (the library's own Coord type is int8): more than 127 / 255 cells
    for (r, c), dt in [((12, 12), "int8"), ((17, 17), "int8"), ((16, 16), "uint8"), ((9, 15), "int8"), ((100, 3), "int8"), ((20, 20), "int16")]:
        for gen in ("dfs", "prim", "wilson", "percolation", "dfs_percolation") if (r * c <= 300 and not ctx.quick) else ("dfs", "dfs_percolation", "percolation", "prim"):
            kw = {"p": 0.3} if gen in ("percolation", "dfs_percolation") else {}
            _one(ctx, dict(gen=gen, rows=r, cols=c, kwargs=kw, shape_dtype=dt), None, pending); ctx.count("small_int_shape")
    # start_coord that is not a cell of the grid (the input of the repaired defect `gen_dfs((3,3), start_coord=(3,0))` and its
    # relatives), every generator that takes one, on every run whatever the seed; and the border cells next to them (accepted)
    for (r, c) in [(3, 3), (2, 5), (1, 1)] + ([] if ctx.quick else [(4, 2), (7, 7), (1, 6)]):
        for gen in ("dfs", "prim", "percolation", "dfs_percolation"):
            for sc in gens.outside_starts(ctx.rng, r, c) + [(r - 1, 0), (0, c - 1), (r - 1, c - 1), (0, 0)]:
                kw = dict(start_coord=sc)
                if gen in ("percolation", "dfs_percolation"): kw["p"] = ctx.rng.choice([0.0, 0.4, 1.0])
                if gen in ("dfs", "prim") and ctx.rng.random() < 0.3: kw["accessible_cells"] = ctx.rng.choice([1, 2, r * c])
                _one(ctx, dict(gen=gen, rows=r, cols=c, kwargs=kw), None, pending)
                ctx.count("start_border_or_outside")
    # Wilson: a very long first walk (bounces between two unvisited cells; legal, unlikely) — step budgets, caps and restarts show here
    import c19, numpy as np
    from maze_dataset.generation.generators import LatticeMazeGenerators as LG
    for (r, c) in [(1, 4), (2, 3), (3, 3), (4, 4)] + ([] if ctx.quick else [(5, 5), (3, 7), (8, 8)]):
        # longer than any budget polynomial in the grid size that a 'guard' could plausibly use (quadratic with a generous constant on small grids)
        sc = c19.long_walk_script(r, c, max(40 * r * c + 7, 70 * (r * c) ** 2 + 11 if r * c <= 16 else 0))
        if sc is None: continue
        case = dict(gen="wilson", rows=r, cols=c, kwargs={})
        with c19.WTap(sc, then_random=ctx.rng) as t:
            try:
                m = LG.gen_wilson(np.array([r, c]))
            except Exception as e:
                ctx.violate(f"wilson {r}x{c} raised {type(e).__name__} on a long but legal walk: {e}", dict(case=case, draws=t.draws[:200])); continue
        gm = m.generation_meta
        impl = dict(shape=list(m.connection_list.shape), dtype=str(m.connection_list.dtype), edges=gens.edges_of(m.connection_list), draws=list(t.draws), rands=[],
                    arities=list(t.ranges), meta_keys=sorted(gm.keys()), func_name=gm.get("func_name"), fully_connected=bool(gm.get("fully_connected")) if "fully_connected" in gm else None,
                    visited=None, start=None, n_accessible_cells=None, max_tree_depth=None)
        try: impl["component"] = sorted([int(a), int(b)] for a, b in m.get_connected_component())
        except ValueError: impl["component"] = "ValueError"
        ctx.case(gens_canon(case, impl)); ctx.count("wilson_long_walk")
        bad = ORACLE(case, impl)
        if bad: ctx.violate(f"wilson {r}x{c} after a {len(sc)-3}-step walk bouncing between two unvisited cells: {bad}", dict(case=case, draws=impl["draws"], rands=[], edges=impl["edges"]))
        pending.append((case, impl, gens.request(case, impl)))


def _caller_edits_helper_results(ctx):
    """the public helper of the generators module hands out arrays that belong to the caller: for every cell of every small shape the
    result is converted in place (to pixel coordinates, say) and dropped, BEFORE any generator runs in this check"""
    import numpy as np
    try:
        from maze_dataset.generation.generators import get_neighbors_in_bounds
    except Exception:
        return
    n = 0
    for r in range(1, 9):
        for c in range(1, 9):
            for i in range(r):
                for j in range(c):
                    for cell, shape in ((np.array([i, j]), np.array([r, c])), ((i, j), (r, c))):
                        try:
                            nb = get_neighbors_in_bounds(cell, shape)
                            if isinstance(nb, np.ndarray) and nb.size: nb *= 2; nb += 1; n += 1
                        except Exception:
                            pass
    ctx.count("caller_edited_helper_results", n)


def run(ctx):
    pending = []
    _caller_edits_helper_results(ctx)
    n_rand = 400 if ctx.quick else 20000
    maxn = 8 if ctx.quick else 16
    for _ in range(n_rand):
        _one(ctx, gens.random_case(ctx.rng, maxn), None, pending)
    # legal-but-adversarial random arrays for the percolation threshold (0.0, p itself, its float neighbours)
    for _ in range(60 if ctx.quick else 2000):
        case = gens.random_case(ctx.rng, 6)
        if case["gen"] not in ("percolation", "dfs_percolation"):
            case = dict(case, gen="percolation", kwargs={"p": ctx.rng.choice([0.0, 0, 1.0, 1, 0.4, 0.7])})
        _one(ctx, case, None, pending, gens.edge_rands(ctx.rng, case["kwargs"].get("p", 0.4)))
        ctx.count("adversarial_rand")
    _special(ctx, pending)
    shapes = [(1, 2), (2, 2), (1, 3), (2, 3)] if ctx.quick else [(1, 2), (2, 2), (1, 3), (3, 1), (2, 3), (3, 2), (1, 5), (2, 4)]
    n_ex, complete = exhaustive_dfs(ctx, shapes, pending, 3000 if ctx.quick else 200000)
    ctx.extra["exhaustive_dfs_runs"] = n_ex; ctx.extra["exhaustive_dfs_complete"] = complete
    # report the most telling violation first (stable: order within a class is kept)
    tell = "fully_connected=True although" if ORACLE is gens.oracle_c12 else "leaves the grid"
    ctx.violations.sort(key=lambda v: 0 if tell in v["what"] else 1)
    outs = ctx.driver.run_parallel([rq for _, _, rq in pending])
    for (case, impl, rq), o in zip(pending, outs):
        ctx.traces_validated += 1
        for b in gens.compare(case, impl, o):
            ctx.disagree(f"{case['gen']} {case['rows']}x{case['cols']} {case['kwargs']} draws={impl['draws'][:40]}: {b}", dict(case=case, draws=impl["draws"]))
        if len(impl["draws"]) > 3: ctx.sample(dict(case=case, draws=impl["draws"][:30], edges=impl["edges"][:12], model_ok=o.get("ok")), limit=4)


def search(ctx):
    _special(ctx, [])
    if ctx.violations: return
    for _ in range(3000 if ctx.quick else 50000):
        case = gens.random_case(ctx.rng, 10)
        try:
            impl, _ = gens.run_impl(case)
        except gens.GeneratorRaised as e:
            bad = gens.judge_raise(case, e)
            ctx.case([str(case), "raised", e.kind])
            if bad:
                ctx.violate(f"{case['gen']} {case['rows']}x{case['cols']} {case['kwargs']}: {bad}", dict(case=case, error=str(e)), key="start-coord-outside-grid" if gens.start_outside(case) else "unlisted")
                return
            continue
        ctx.case(gens_canon(case, impl))
        bad = gens.judge_returned_for_outside(case, impl) or ORACLE(case, impl)
        if bad:
            ctx.violate(f"{case['gen']} {case['rows']}x{case['cols']} {case['kwargs']}: {bad}", dict(case=case, draws=impl["draws"], edges=impl["edges"]))
            return


def replay(ctx, rp):
    c = rp["case"]
    case = c["case"]
    case["kwargs"] = {k: (tuple(v) if k == "start_coord" else v) for k, v in case["kwargs"].items()}
    import random as pyrandom, numpy as np
    # replay by scripting python-random choices; numpy draws are replayed by seeding is impossible, so report the oracle on a fresh run
    try:
        impl, _ = gens.run_impl(case, script=[d for d in c.get("draws", [])] if case["gen"] in ("dfs", "prim") and "start_coord" in case["kwargs"] else None)
    except gens.GeneratorRaised as e:
        bad = gens.judge_raise(case, e)
        if bad: ctx.violate(f"replay: {bad}", dict(case=case, error=str(e)))
        return
    bad = gens.judge_returned_for_outside(case, impl) or ORACLE(case, impl)
    if bad: ctx.violate(f"replay: {bad}", dict(case=case, draws=impl["draws"], edges=impl["edges"]))
