import MazeVerif.Lemmas.Dataset
import MazeVerif.Lemmas.DatasetGen
import MazeVerif.Lemmas.DatasetLocal
import MazeVerif.Props.C12
import MazeVerif.Props.C02
/-! # C03 — every item of a generated dataset is a correctly solved maze

Model: `Model/Dataset.lean`. The per-item theorem holds for every well-formed maze whose metadata component is sound
(supplied for the generators by C12), every endpoint choice the code can make, every legal A* pick sequence and every
fuel — hence for whatever draw stream a serial run or a worker process happens to use. The generator instantiations
(`C03_*_component_ok`) hold for EVERY `start_coord` a config's `maze_ctor_kwargs` may carry: one outside the grid makes
the generator raise ValueError at generation time (`C01_start_rejected`; no dataset is produced), any other start is in
the grid (`C01_start_in_grid_of_success`).

Dataset level (`Model/DatasetGen.lean`): `generateSerial cfg genFuel solveFuel n streams` runs the helper `n` times on ONE
shared stream, each call starting on what the previous one left. `C03_dataset_items_ok` connects the ITEMS of such a run
to the per-item theorems (every item, every generator, every stream, every `n`), `C03_dataset_count`,
`C03_dataset_prefix`, `C03_dataset_item_at`, `C03_dataset_split` are the "exactly n items, in index order" part, and
`C03_full_dataset_holds` assembles them. `C03_count` is kept but is only the definitional lemma about
`(List.range n).map item`; it says nothing about the items. -/
namespace MZ
open MZ.AStar

/-- what C12 guarantees about the cells `get_connected_component()` returns -/
def ComponentOK (rows cols : Nat) (E : List Edge) (comp : List Cell) : Prop :=
  (∀ c ∈ comp, inGrid rows cols c) ∧ ∀ u ∈ comp, ∀ v ∈ comp, Reach E u v

/-- the endpoint options are honoured by `(s, e)` -/
def EndpointsHonoured (rows cols : Nat) (E : List Edge) (comp : List Cell) (o : EndpointOpts) (s e : Cell) : Prop :=
  s ∈ comp ∧ e ∈ comp ∧
  (∀ l, o.allowedStart = some l → s ∈ l) ∧ (∀ l, o.allowedEnd = some l → e ∈ l) ∧
  (o.deadendStart = true → (coordNeighbors rows cols E s).length = 1) ∧
  (o.deadendEnd = true → (coordNeighbors rows cols E e).length = 1) ∧
  (o.notEqual = true → e ≠ s) ∧
  (o.isDefault = true → s ≠ e)

/-- a correctly solved item: the property's per-maze clause -/
def ItemOK (rows cols : Nat) (E : List Edge) (s e : Cell) (sol : List Cell) : Prop :=
  sol ≠ [] ∧ solvedStart sol = some s ∧ solvedEnd sol = some e ∧ (∀ c ∈ sol, inGrid rows cols c) ∧
  IsWalkList (Adj E) sol ∧ sol.Nodup ∧ ∀ m, Walk (Adj E) s e m → sol.length - 1 ≤ m

private theorem mem_allowedSet {rows cols E comp allowed deadend c}
    (h : c ∈ allowedSet rows cols E comp allowed deadend) :
    c ∈ comp ∧ (∀ l, allowed = some l → c ∈ l) ∧ (deadend = true → (coordNeighbors rows cols E c).length = 1) := by
  unfold allowedSet at h
  cases allowed with
  | none =>
    cases deadend with
    | false => simp at h; exact ⟨h, by simp, by simp⟩
    | true => simp [isDeadend] at h; exact ⟨h.1, by simp, fun _ => h.2⟩
  | some l =>
    cases deadend with
    | false => simp at h; exact ⟨h.1, by intro l' hl; simp at hl; subst hl; exact h.2, by simp⟩
    | true =>
      simp [isDeadend] at h
      exact ⟨h.1, by intro l' hl; simp at hl; subst hl; exact h.2.2, fun _ => h.2.1⟩

theorem C03_endpoints_honoured {rows cols E comp o s e} (h : endpointsOK rows cols E comp o s e = true) :
    EndpointsHonoured rows cols E comp o s e := by
  unfold endpointsOK at h
  cases hd : o.isDefault with
  | true =>
    rw [hd] at h
    simp only [if_true, Bool.and_eq_true, List.contains_iff_mem, bne_iff_ne, ne_eq] at h
    obtain ⟨⟨h1, h2⟩, h3⟩ := h
    have hdef := hd
    simp only [EndpointOpts.isDefault, Bool.and_eq_true, Option.isNone_iff_eq_none, Bool.not_eq_eq_eq_not,
      Bool.not_true] at hdef
    obtain ⟨⟨⟨ha, hb⟩, hc⟩, hdd⟩ := hdef
    exact ⟨h1, h2, by simp [ha], by simp [hb], by simp [hc], by simp [hdd], fun _ h' => h3 h'.symm, fun _ => h3⟩
  | false =>
    rw [hd] at h
    simp only [Bool.false_eq_true, if_false, Bool.and_eq_true, List.contains_iff_mem, Bool.or_eq_true,
      Bool.not_eq_eq_eq_not, Bool.not_true, bne_iff_ne, ne_eq] at h
    obtain ⟨⟨h1, h2⟩, h3⟩ := h
    obtain ⟨s1, s2, s3⟩ := mem_allowedSet h1
    obtain ⟨e1, e2, e3⟩ := mem_allowedSet h2
    refine ⟨s1, e1, s2, e2, s3, e3, ?_, by simp [hd]⟩
    intro hne
    rcases h3 with h3 | h3
    · rw [hne] at h3; simp at h3
    · exact h3

/-- C12 is consumed here: endpoints the code can draw are always mutually reachable, so the solver's error branch
    is unreachable for generated mazes -/
theorem C03_reachable {rows cols E comp o s e picks fuel} (hwf : WF rows cols E) (hcomp : ComponentOK rows cols E comp) :
    solveItem rows cols E comp o s e picks fuel ≠ .error .noPath := by
  unfold solveItem
  split
  · next hok =>
    have hh := C03_endpoints_honoured hok
    have hr := hcomp.2 s hh.1 e hh.2.1
    have := C02_connected_not_error (picks := picks) (fuel := fuel) hwf hr
    split <;> simp_all
  · simp

/-- the per-item theorem -/
theorem C03_item {rows cols E comp o s e picks fuel sol} (hwf : WF rows cols E) (hcomp : ComponentOK rows cols E comp)
    (h : solveItem rows cols E comp o s e picks fuel = .ok sol) :
    ItemOK rows cols E s e sol ∧ EndpointsHonoured rows cols E comp o s e := by
  unfold solveItem at h
  split at h
  · next hok =>
    have hh := C03_endpoints_honoured hok
    split at h
    · next p hp =>
      simp only [Except.ok.injEq] at h; subst h
      obtain ⟨h1, h2, h3⟩ := C02_sound hwf hp
      obtain ⟨h4, h5⟩ := C02_optimal hwf hp
      refine ⟨⟨isWalkList_ne_nil h3, h1, h2, ?_, h3, ?_, h5⟩, hh⟩
      · by_cases hl : 2 ≤ p.length
        · exact isWalkList_inGrid hwf h3 hl
        · intro c hc
          cases p with
          | nil => simp at hc
          | cons x t =>
            cases t with
            | nil =>
              simp at h1 hc; subst h1; subst hc; exact hcomp.1 _ hh.1
            | cons y t' => simp at hl
      · exact nodup_of_shortest h3 h1 h2 (by simpa [steps] using h5)
    · simp at h
    · simp at h
  · simp at h

/-- DEFINITIONAL lemma (kept for reference, NOT the dataset-level claim): `generateDataset n item` is by definition
    `(List.range n).map item` for an ARBITRARY `item`, so this only restates `List.length_map` / `List.getElem_map`; it
    does not say what the items are nor how they share the random stream. The dataset-level statements about the real
    serial generation are `C03_dataset_count`, `C03_dataset_items_ok`, `C03_dataset_prefix`, `C03_dataset_item_at` below. -/
theorem C03_count {α} (n : Nat) (item : Nat → α) :
    (generateDataset n item).length = n ∧ ∀ i (h : i < (generateDataset n item).length), (generateDataset n item)[i] = item i := by
  simp [generateDataset]

/-- instantiation for gen_dfs / gen_prim (every argument combination): the component read off the metadata is sound -/
theorem C03_dfs_component_ok {rows cols : Nat} (hr : 0 < rows) (hc : 0 < cols) {a given draws fuel o}
    (h : genDfsTop rows cols a given draws fuel = some o) :
    WF rows cols o.edges ∧ ComponentOK rows cols o.edges (metaComponent rows cols o.fullyConnected o.visited) := by
  refine ⟨(C01_dfs_wf hr hc h).1, ?_, C12_endpoints_reachable hr hc h⟩
  intro c hcm
  unfold metaComponent at hcm
  split at hcm
  · exact mem_cells.mp hcm
  · exact (C12_dfs_tree_on_visited hr hc h).2.2.2.2.2.1 c hcm

/-- instantiation for gen_wilson: flagged fully connected, component = all cells -/
theorem C03_wilson_component_ok {rows cols : Nat} (hr : 0 < rows) (hc : 0 < cols) {draws fuel s}
    (h : genWilsonTop rows cols draws fuel = some s) :
    WF rows cols s.E ∧ ComponentOK rows cols s.E (metaComponent rows cols true []) := by
  have hsp := C01_wilson_spanning hr hc h
  refine ⟨hsp.1, fun c hcm => mem_cells.mp (by simpa [metaComponent] using hcm), ?_⟩
  intro u hu v hv
  simp only [metaComponent, if_true] at hu hv
  exact hsp.2.2.2.1 u v (mem_cells.mp hu) (mem_cells.mp hv)

private theorem startCoord_grid {rows cols : Nat} (hr : 0 < rows) (hc : 0 < cols) {given draws c rest}
    (h : startCoord rows cols given draws = some (c, rest)) : inGrid rows cols c :=
  startCoord_in_grid' hr hc h

/-- instantiation for gen_percolation (no flag: the component is the recorded visited set) -/
theorem C03_percolation_component_ok {rows cols : Nat} (hr : 0 < rows) (hc : 0 < cols) {p given draws rands fuel o}
    (h : genPercolationTop rows cols p given draws rands fuel = some o) :
    WF rows cols o.edges ∧ ComponentOK rows cols o.edges (metaComponent rows cols false o.visited) := by
  have hwf := (C01_percolation_wf h).1
  have hvis := C12_percolation_visited_exact h
  have hstart : inGrid rows cols o.start := by
    unfold genPercolationTop at h
    split at h
    · simp at h
    · next start d1 hst =>
      split at h
      · simp at h
      · split at h
        · simp at h
        · simp only [Option.some.injEq] at h; subst h; exact startCoord_grid hr hc hst
  exact ⟨hwf, by simpa [metaComponent, ComponentOK] using C12_component_of_start_ok hwf hstart hvis⟩

/-- instantiation for gen_dfs_percolation: dfs flag (sound by `C12_dfsperc_flag_sound`) or the recomputed visited set -/
theorem C03_dfsperc_component_ok {rows cols : Nat} (hr : 0 < rows) (hc : 0 < cols) {p a given draws rands fuel o}
    (h : genDfsPercolationTop rows cols p a given draws rands fuel = some o) :
    WF rows cols o.edges ∧ ComponentOK rows cols o.edges (metaComponent rows cols o.fullyConnected o.visited) := by
  have hwf := (C01_dfsperc_wf hr hc h).1
  refine ⟨hwf, ?_⟩
  cases hfl : o.fullyConnected with
  | true =>
    have hall := C12_dfsperc_flag_sound hr hc h hfl
    refine ⟨fun c hcm => mem_cells.mp (by simpa [metaComponent] using hcm), ?_⟩
    intro u hu v hv
    simp only [metaComponent, if_true] at hu hv
    exact hall u v (mem_cells.mp hu) (mem_cells.mp hv)
  | false =>
    have hvis := C12_dfsperc_visited_exact hr hc h
    have hstart : inGrid rows cols o.start := by
      unfold genDfsPercolationTop at h
      split at h
      · simp at h
      · next start d1 hst =>
        split at h
        · simp at h
        · split at h
          · simp at h
          · simp only at h
            split at h
            · simp at h
            · simp only [Option.some.injEq] at h; subst h; exact startCoord_grid hr hc hst
    simpa [metaComponent, ComponentOK] using C12_component_of_start_ok hwf hstart hvis

/-- a config whose `maze_ctor_kwargs` carries a `start_coord` outside the grid produces NO item: every generator that
    takes a start coordinate is in its error branch (the ValueError of `_random_start_coord`) for every draw stream —
    restated from `C01_start_rejected`; it is the only case the `…_component_ok` theorems above do not speak about -/
theorem C03_rejected_start_no_item {rows cols : Nat} {given : Option Cell} (hrej : StartRejected rows cols given) :
    (∀ a draws fuel, genDfsTop rows cols a given draws fuel = none ∧ genPrimTop rows cols a given draws fuel = none) ∧
    (∀ p draws rands fuel, genPercolationTop rows cols p given draws rands fuel = none) ∧
    (∀ p a draws rands fuel, genDfsPercolationTop rows cols p a given draws rands fuel = none) :=
  ⟨fun a draws fuel => ⟨(C01_start_rejected hrej).2.1 a draws fuel, (C01_start_rejected hrej).2.2.1 a draws fuel⟩,
   (C01_start_rejected hrej).2.2.2.1, (C01_start_rejected hrej).2.2.2.2⟩

/-- full per-item statement for the dfs family, end to end -/
theorem C03_dfs_item {rows cols : Nat} (hr : 0 < rows) (hc : 0 < cols) {a given draws fuel o opts s e picks fuel' sol}
    (h : genDfsTop rows cols a given draws fuel = some o)
    (hs : solveItem rows cols o.edges (metaComponent rows cols o.fullyConnected o.visited) opts s e picks fuel' = .ok sol) :
    ItemOK rows cols o.edges s e sol ∧
    EndpointsHonoured rows cols o.edges (metaComponent rows cols o.fullyConnected o.visited) opts s e :=
  C03_item (C03_dfs_component_ok hr hc h).1 (C03_dfs_component_ok hr hc h).2 hs

theorem C03_wilson_item {rows cols : Nat} (hr : 0 < rows) (hc : 0 < cols) {draws fuel w opts s e picks fuel' sol}
    (h : genWilsonTop rows cols draws fuel = some w)
    (hs : solveItem rows cols w.E (metaComponent rows cols true []) opts s e picks fuel' = .ok sol) :
    ItemOK rows cols w.E s e sol ∧ EndpointsHonoured rows cols w.E (metaComponent rows cols true []) opts s e :=
  C03_item (C03_wilson_component_ok hr hc h).1 (C03_wilson_component_ok hr hc h).2 hs


/-! ## dataset level: serial generation on ONE shared stream (`Model/DatasetGen.lean`) -/

/-- the per-item statement, for an item of a dataset generated from `cfg`: the maze is well formed, the component its
    metadata gives is sound, the stored solution is a correct shortest simple route between `start_pos` and `end_pos`
    (`ItemOK`, what `C03_item` concludes) and the endpoint options of the config are honoured -/
def DatasetItemOK (cfg : DatasetCfg) (it : Item) : Prop :=
  WF cfg.rows cfg.cols it.edges ∧ ComponentOK cfg.rows cfg.cols it.edges it.comp ∧
  ItemOK cfg.rows cfg.cols it.edges it.s it.e it.sol ∧
  EndpointsHonoured cfg.rows cfg.cols it.edges it.comp cfg.opts it.s it.e

/-- every generator call on the shared streams (any generator, any arguments, any stream position) returns a well-formed
    maze with a sound component: the four `C03_*_component_ok` theorems, dispatched on the configured generator -/
private theorem genMaze_ok {rows cols : Nat} (hr : 0 < rows) (hc : 0 < cols) {g draws rands fuel m}
    (h : genMaze rows cols g draws rands fuel = some m) :
    WF rows cols m.edges ∧ ComponentOK rows cols m.edges m.comp := by
  unfold genMaze at h
  cases g with
  | dfs a given =>
    simp only [Option.map_eq_some_iff] at h
    obtain ⟨o, ho, rfl⟩ := h
    exact C03_dfs_component_ok hr hc ho
  | prim a given =>
    simp only [Option.map_eq_some_iff] at h
    obtain ⟨o, ho, rfl⟩ := h
    exact C03_dfs_component_ok hr hc (a := { a with randStack := true }) ho
  | wilson =>
    simp only [Option.map_eq_some_iff] at h
    obtain ⟨w, hw, rfl⟩ := h
    exact C03_wilson_component_ok hr hc hw
  | percolation p given =>
    simp only at h
    split at h
    · next o _ ho =>
      simp only [Option.some.injEq] at h; subst h
      exact C03_percolation_component_ok hr hc ho
    · exact absurd h (by simp)
  | dfsPercolation p a given =>
    simp only at h
    split at h
    · next d o _ ho =>
      simp only [Option.some.injEq] at h; subst h
      exact C03_dfsperc_component_ok hr hc ho
    · exact absurd h (by simp)

/-- ONE helper call on the shared streams, wherever in the stream it starts: its item satisfies the per-item statement.
    No hypothesis on the grid: `generate_random_path` asserts both sides > 1, a call on a smaller grid returns nothing. -/
private theorem serialItem_ok {cfg : DatasetCfg} {gf sf : Nat} {st : Streams} {it : Item} {st' : Streams}
    (h : serialItem cfg gf sf st = some (it, st')) : DatasetItemOK cfg it := by
  unfold serialItem at h
  split at h
  · exact absurd h (by simp)
  · next m hm =>
    split at h
    · next hg =>
      have hok := genMaze_ok (by omega) (by omega) hm
      split at h
      · exact absurd h (by simp)
      · next ob obs' _ =>
        split at h
        · exact absurd h (by simp)
        · split at h
          · next sol hsol =>
            simp only [Option.some.injEq, Prod.mk.injEq] at h
            obtain ⟨rfl, _⟩ := h
            obtain ⟨h1, h2⟩ := C03_item hok.1 hok.2 hsol
            exact ⟨hok.1, hok.2, h1, h2⟩
          · exact absurd h (by simp)
    · exact absurd h (by simp)

/-- COUNT: a serial run for `n` mazes that returns, returns exactly `n` items -/
theorem C03_dataset_count {cfg : DatasetCfg} {gf sf n : Nat} {st : Streams} {its left}
    (h : generateSerial cfg gf sf n st = some (its, left)) : its.length = n :=
  generateSerial_length h

/-- ITEMS: EVERY item of EVERY serial run satisfies the per-item statement — for all configurations (all five
    generators with all their arguments, any `start_coord`, any endpoint options, any grid), all `n`, all shared draw /
    rand streams, all observed endpoint choices and picks, all fuels. Induction on `n` (`generateSerial_forall`) over the
    per-item theorem `C03_item` and the generator instantiations `C03_*_component_ok`. -/
theorem C03_dataset_items_ok {cfg : DatasetCfg} {gf sf n : Nat} {st : Streams} {its left}
    (h : generateSerial cfg gf sf n st = some (its, left)) : ∀ it ∈ its, DatasetItemOK cfg it :=
  generateSerial_forall (P := DatasetItemOK cfg) (fun _ _ _ hs => serialItem_ok hs) h

/-- PREFIX ("in index order", part 1): the first `k` items of the run for `n` mazes are exactly the run for `k` mazes on
    the SAME streams — item `i` depends only on what the items before it consumed, never on `n` or on later items; and the
    remaining `n - k` items are a run on what those `k` left -/
theorem C03_dataset_prefix {cfg : DatasetCfg} {gf sf n k : Nat} {st : Streams} {its left} (hk : k ≤ n)
    (h : generateSerial cfg gf sf n st = some (its, left)) :
    ∃ mid, generateSerial cfg gf sf k st = some (its.take k, mid) ∧
      generateSerial cfg gf sf (n - k) mid = some (its.drop k, left) :=
  generateSerial_take hk h

/-- INDEX ORDER, part 2: item `i` is what ONE call of the helper returns when started on the streams the run of the first
    `i` items left -/
theorem C03_dataset_item_at {cfg : DatasetCfg} {gf sf n : Nat} {st : Streams} {its left}
    (h : generateSerial cfg gf sf n st = some (its, left)) (i : Nat) (hi : i < its.length) :
    ∃ mid after, generateSerial cfg gf sf i st = some (its.take i, mid) ∧
      serialItem cfg gf sf mid = some (its[i], after) := by
  obtain ⟨pre, mid, after, h1, rfl, h2⟩ := generateSerial_getElem h i hi
  exact ⟨mid, after, h1, h2⟩

/-- SPLIT: generating `k + m` mazes is generating `k` and then `m` more on the leftover streams (as an equation between
    the two computations, failures included) -/
theorem C03_dataset_split (cfg : DatasetCfg) (gf sf k m : Nat) (st : Streams) :
    generateSerial cfg gf sf (k + m) st =
      (generateSerial cfg gf sf k st).bind fun r =>
        (generateSerial cfg gf sf m r.2).map fun q => (r.1 ++ q.1, q.2) :=
  generateSerial_add cfg gf sf k m st

/-- STREAM USE: a serial run consumes a PREFIX of each shared stream — what it leaves is a suffix of what it was given
    (draws, rands, observations) — at least two draws per item (the endpoint indices) and exactly one observation per
    item. Together with `C03_dataset_prefix`: the `k`-th call starts exactly where the first `k` calls stopped. -/
theorem C03_dataset_consumes_prefix {cfg : DatasetCfg} {gf sf n : Nat} {st : Streams} {its left}
    (h : generateSerial cfg gf sf n st = some (its, left)) :
    left.draws <:+ st.draws ∧ left.rands <:+ st.rands ∧ left.obs <:+ st.obs ∧
      left.draws.length + 2 * n ≤ st.draws.length ∧ st.obs.length = left.obs.length + n :=
  let ⟨⟨h1, h2, h3⟩, h4, h5⟩ := generateSerial_leftOf h
  ⟨h1, h2, h3, h4, h5⟩

/-- LOCALITY: a serial run reads the shared streams ONLY through the prefix `used` it consumes (`st = used ++ left`,
    stream by stream): on ANY other continuation `t` of that prefix — different later draws, more or fewer of them — the
    same items come out and exactly `t` is left. So no item depends on a draw that comes after it. -/
theorem C03_dataset_local {cfg : DatasetCfg} {gf sf n : Nat} {st : Streams} {its left}
    (h : generateSerial cfg gf sf n st = some (its, left)) :
    ∃ used : Streams, st = used.app left ∧ ∀ t, generateSerial cfg gf sf n (used.app t) = some (its, t) :=
  generateSerial_local h

/-- "item `i` depends only on the draws before it", literally: the first `k` items of the run for `n` mazes are
    determined by the prefix `used` of the streams the first `k` calls consume — they are what the run for `k` mazes
    returns on `used` followed by ANYTHING -/
theorem C03_dataset_prefix_local {cfg : DatasetCfg} {gf sf n k : Nat} {st : Streams} {its left} (hk : k ≤ n)
    (h : generateSerial cfg gf sf n st = some (its, left)) :
    ∃ used mid : Streams, st = used.app mid ∧ ∀ t, generateSerial cfg gf sf k (used.app t) = some (its.take k, t) := by
  obtain ⟨mid, h1, _⟩ := C03_dataset_prefix hk h
  obtain ⟨used, e, f⟩ := generateSerial_local h1
  exact ⟨used, mid, e, f⟩

/-- the solver's `ValueError` ("A solution could not be found") is unreachable for every maze a serial run builds,
    whatever endpoints and picks are observed: `C03_reachable` at the dataset level -/
theorem C03_dataset_no_path_error {rows cols : Nat} (hr : 0 < rows) (hc : 0 < cols) {g draws rands fuel m}
    (h : genMaze rows cols g draws rands fuel = some m) (o : EndpointOpts) (s e : Cell) (picks : List Cell) (sf : Nat) :
    solveItem rows cols m.edges m.comp o s e picks sf ≠ .error .noPath :=
  C03_reachable (genMaze_ok hr hc h).1 (genMaze_ok hr hc h).2

/-- DETERMINISM is trivial and carries no content beyond the model being a function: `generateSerial` is a Lean function
    of (config, fuels, n, streams), so equal inputs give equal outputs by `congr`/`rfl`. What makes the real code
    deterministic — that the streams are a function of the seed — is C06's subject, not this theorem's. -/
theorem C03_dataset_deterministic {cfg : DatasetCfg} {gf sf n : Nat} {st : Streams} {r₁ r₂}
    (h₁ : generateSerial cfg gf sf n st = r₁) (h₂ : generateSerial cfg gf sf n st = r₂) : r₁ = r₂ :=
  h₁.symm.trans h₂

/-- the dataset-level statement of C03 for serial generation: whenever the run for `n` mazes on ONE shared stream
    returns, it returns exactly `n` items, every one of them a correctly solved maze honouring the endpoint options, and
    for every `k ≤ n` its first `k` items are the run for `k` mazes on the same streams, item `i` is one helper call on what the
    first `i` calls left, what the run leaves of each stream is a suffix of what it got, and the first `k` items are a function
    of the prefix of the streams the first `k` calls consume (whatever follows that prefix) -/
def C03_full_dataset : Prop :=
  ∀ (cfg : DatasetCfg) (gf sf n : Nat) (st : Streams) (its : List Item) (left : Streams),
    generateSerial cfg gf sf n st = some (its, left) →
      its.length = n ∧ (∀ it ∈ its, DatasetItemOK cfg it) ∧
      (∀ k, k ≤ n → ∃ mid, generateSerial cfg gf sf k st = some (its.take k, mid)) ∧
      (∀ i (hi : i < its.length), ∃ mid after, generateSerial cfg gf sf i st = some (its.take i, mid) ∧
        serialItem cfg gf sf mid = some (its[i], after)) ∧
      (left.draws <:+ st.draws ∧ left.rands <:+ st.rands ∧ left.obs <:+ st.obs) ∧
      (∀ k, k ≤ n → ∃ used mid : Streams, st = used.app mid ∧
        ∀ t, generateSerial cfg gf sf k (used.app t) = some (its.take k, t))

theorem C03_full_dataset_holds : C03_full_dataset := fun _ _ _ _ _ _ _ h =>
  ⟨C03_dataset_count h, C03_dataset_items_ok h,
   fun _ hk => (C03_dataset_prefix hk h).imp fun _ hm => hm.1,
   fun i hi => C03_dataset_item_at h i hi,
   ⟨(C03_dataset_consumes_prefix h).1, (C03_dataset_consumes_prefix h).2.1, (C03_dataset_consumes_prefix h).2.2.1⟩,
   fun _ hk => C03_dataset_prefix_local hk h⟩

/-! ## non-vacuity -/
example : (solveItem 2 2 [(0,0,0),(1,0,0),(0,0,1)] (cells 2 2) {} (1,0) (1,1) [(1,0),(0,0),(0,1),(1,1)] 9).toOption
    = some [(1,0),(0,0),(0,1),(1,1)] := by decide
example : endpointsOK 2 2 [(0,0,0),(1,0,0),(0,0,1)] (cells 2 2) { deadendStart := true, notEqual := true } (1,0) (1,1) = true := by decide
-- a config with a fixed in-grid `start_coord`: the generator returns and the component is read off its metadata;
-- with a start outside the grid there is nothing to solve
example : (genDfsTop 2 2 (defaultArgs 2 2 false) (some (1, 1)) (List.replicate 16 0) 8).map
    (fun o => (metaComponent 2 2 o.fullyConnected o.visited).length) = some 4 := by decide
example : StartRejected 2 2 (some (2, 0)) ∧ genDfsTop 2 2 (defaultArgs 2 2 false) (some (2, 0)) (List.replicate 16 0) 8 = none := by decide

/-! ### non-vacuity, dataset level: concrete 2-item datasets on ONE shared stream -/
/-- gen_dfs, 2x2, default endpoint options, random start -/
private def exCfg : DatasetCfg :=
  { rows := 2, cols := 2, gen := .dfs { nAcc := 4, maxDepth := 8, doForks := true, randStack := false } none }
/-- item 0 uses draws `0,0,0,0,0` (start + 3 dfs choices) and `0,2` (endpoint indices), item 1 the NEXT seven; `7` is left -/
private def exStreams : Streams :=
  { draws := [0,0,0,0,0, 0,2, 0,0,1,0,0, 3,1, 7]
    obs := [⟨(0,0),(1,0),[(0,0),(0,1),(1,1),(1,0)]⟩, ⟨(0,0),(0,1),[(0,0),(1,0),(1,1),(0,1)]⟩, ⟨(0,0),(0,0),[]⟩] }
private def exItems : List Item :=
  [{ edges := [(1,0,0),(0,0,1),(1,1,0)], comp := cells 2 2, s := (0,0), e := (1,0), sol := [(0,0),(0,1),(1,1),(1,0)] },
   { edges := [(0,0,0),(1,1,0),(0,0,1)], comp := cells 2 2, s := (0,0), e := (0,1), sol := [(0,0),(1,0),(1,1),(0,1)] }]
-- C03_dataset_count / C03_dataset_items_ok / C03_full_dataset: the hypothesis is satisfiable, with two DIFFERENT mazes
example : generateSerial exCfg 40 9 2 exStreams =
    some (exItems, { draws := [7], obs := [⟨(0,0),(0,0),[]⟩] }) := by decide
-- C03_dataset_prefix / C03_dataset_item_at: the run for 1 maze is the first item and leaves item 1's draws
example : generateSerial exCfg 40 9 1 exStreams =
    some (exItems.take 1, { draws := [0,0,1,0,0, 3,1, 7], obs := exStreams.obs.drop 1 }) := by decide
example : serialItem exCfg 40 9 { draws := [0,0,1,0,0, 3,1, 7], obs := exStreams.obs.drop 1 } =
    some (exItems[1], { draws := [7], obs := [⟨(0,0),(0,0),[]⟩] }) := by decide
-- the `none` branch is real: a third item fails (stream exhausted), and so does an endpoint draw out of range
example : generateSerial exCfg 40 9 3 exStreams = none := by decide
example : generateSerial exCfg 40 9 1 { exStreams with draws := [0,0,0,0,0, 0,4] } = none := by decide
example : generateSerial exCfg 40 9 1 { exStreams with draws := [0,0,0,0,0, 2,2] } = none := by decide
-- the assertion of `generate_random_path` on a 1 x n grid: no item
example : generateSerial { exCfg with rows := 1 } 40 9 1 exStreams = none := by decide
-- gen_percolation (p = 1/2, fixed start, dead-end end + endpoints_not_equal): the rand stream is shared too — item 0
-- takes the first 8 doubles, item 1 the next 8; the second maze is NOT fully connected (component of 2 cells)
private def exCfgP : DatasetCfg :=
  { rows := 2, cols := 2, gen := .percolation (1,2) (some (0,1)), opts := { deadendEnd := true, notEqual := true } }
example : generateSerial exCfgP 40 9 2
    { draws := [2,1, 1,0]
      rands := [(1,4),(3,4),(1,4),(1,4),(1,4),(3,4),(1,4),(1,4), (3,4),(3,4),(1,4),(1,4),(1,4),(3,4),(1,4),(1,4)]
      obs := [⟨(1,0),(0,1),[(1,0),(0,0),(0,1)]⟩, ⟨(0,0),(0,1),[(0,0),(0,1)]⟩] } =
    some ([{ edges := [(0,0,0),(1,0,0),(1,1,0)], comp := [(0,1),(0,0),(1,0),(1,1)], s := (1,0), e := (0,1), sol := [(1,0),(0,0),(0,1)] },
           { edges := [(1,0,0),(1,1,0)], comp := [(0,1),(0,0)], s := (0,0), e := (0,1), sol := [(0,0),(0,1)] }],
          { draws := [] }) := by decide
-- C03_dataset_consumes_prefix: 14 of the 15 draws and 2 of the 3 observations are consumed, `[7]` is the suffix left
example : ([7] : List Nat) <:+ exStreams.draws ∧ 1 + 2 * 2 ≤ exStreams.draws.length :=
  ⟨(C03_dataset_consumes_prefix (cfg := exCfg) (gf := 40) (sf := 9) (n := 2) (st := exStreams) (its := exItems)
      (left := { draws := [7], obs := [⟨(0,0),(0,0),[]⟩] }) (by decide)).1, by decide⟩
-- C03_dataset_local / C03_dataset_prefix_local: the same 14 draws followed by OTHER draws give the same two items;
-- the first 7 draws followed by anything give the first item
example : generateSerial exCfg 40 9 2 { exStreams with draws := [0,0,0,0,0, 0,2, 0,0,1,0,0, 3,1] ++ [5,6], obs := exStreams.obs.take 2 } =
    some (exItems, { draws := [5,6] }) := by decide
example : generateSerial exCfg 40 9 1 { draws := [0,0,0,0,0, 0,2] ++ [9,9,9], obs := exStreams.obs.take 1 } =
    some (exItems.take 1, { draws := [9,9,9] }) := by decide
-- C03_dataset_no_path_error: its hypothesis is satisfiable
example : (genMaze 2 2 exCfg.gen exStreams.draws [] 40).isSome = true := by decide
-- C03_dataset_split / C03_dataset_deterministic: instances
example : generateSerial exCfg 40 9 (1 + 1) exStreams =
    (generateSerial exCfg 40 9 1 exStreams).bind fun r =>
      (generateSerial exCfg 40 9 1 r.2).map fun q => (r.1 ++ q.1, q.2) := C03_dataset_split exCfg 40 9 1 1 exStreams
example : DatasetItemOK exCfg exItems[0] :=
  C03_dataset_items_ok (cfg := exCfg) (gf := 40) (sf := 9) (n := 2) (st := exStreams) (its := exItems)
    (left := { draws := [7], obs := [⟨(0,0),(0,0),[]⟩] }) (by decide) _ (by decide)

end MZ
