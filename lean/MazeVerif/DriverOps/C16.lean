import MazeVerif.DriverOps.Util
import MazeVerif.Model.Coll
import MazeVerif.Model.CollectionState
namespace MZ.Drv.C16
open Lean MZ.Drv MZ.Coll

/-- one statement of `C16.machine`: `["set",j,[ids…]]`, `["mupd",j]`, `["cupd"]`, `["mazes"]`, `["get",i]`, `["len"]`,
    `["lengths"]`, `["count"]` -/
def asOp (j : Json) : R (Op Nat) := do
  match (← j.getArr?).toList with
  | [t, a, b] =>
    match ← t.getStr? with
    | "set" => pure (.setMember (← a.getNat?) (← asNatList b))
    | t => throw s!"C16.machine: unknown 3-element statement {t}"
  | [t, a] =>
    match ← t.getStr? with
    | "mupd" => pure (.memberUpdateCfg (← a.getNat?))
    | "get" => pure (.getitem (← a.getNat?))
    | t => throw s!"C16.machine: unknown 2-element statement {t}"
  | [t] =>
    match ← t.getStr? with
    | "cupd" => pure .collUpdateCfg
    | "mazes" => pure .readMazes
    | "len" => pure .len
    | "lengths" => pure .lengths
    | "count" => pure .cfgCount
    | t => throw s!"C16.machine: unknown 1-element statement {t}"
  | _ => throw "C16.machine: a statement is [name], [name,n] or [\"set\",j,[ids]]"

/-- output of one statement: a statement without value → `null`, an item / a count → number, a maze list / the
    lengths → array, IndexError → `{"error":"IndexError"}` -/
def jOut : Out Nat → Json
  | .unit => Json.null
  | .item x => jNat x
  | .list l => jNats l
  | .nat n => jNat n
  | .nats l => jNats l
  | .error => obj [("error", Json.str "IndexError")]

def jState (s : CState Nat) : Json :=
  obj [("members", Json.arr (s.members.map jNats).toArray), ("member_cfg_n", jNats s.memberCfgN),
       ("extra_cfg_n", jNat s.extraCfgN), ("n_mazes", jNat s.collCfgN),
       ("dict_n_mazes", match s.dictN with | some n => jNat n | none => Json.null),
       ("cache", match s.cache with | some l => jNats l | none => Json.null)]

/-- `clean[k]` = no member slot is dirty just before statement `k` (`dirty [] (ops.take k) = []`) -/
def cleanFlags (d : List Nat) : List (Op Nat) → List Bool
  | [] => []
  | o :: os => d.isEmpty :: cleanFlags (dirty d [o]) os

/-- ops: `C16.machine` {members: [[id,...],...], ops: [statement,...], member_cfg_n?: [..], extra_cfg_n?: n} →
    {outs: [one output per statement], final: the last state, clean: [bool per statement], disciplined: bool}.
    Start state = `init members` (member cfg counts = lengths, no surplus configs, nothing cached) unless
    `member_cfg_n` / `extra_cfg_n` say otherwise (a collection built by the constructor from arbitrary configs).
    `clean` / `disciplined` start from the slots whose given `member_cfg_n` differs from the length (none for `init`);
    where `clean[k]` holds and `extra_cfg_n = 0` and there is one config per member, theorem
    `C16_state_counts_invariant` says the counts read by statement `k` agree.

    `C16.collection` {members: [[id,...],...], cfg_counts:[..]} →
    {len, mazes, lengths, n_mazes, items:[getItem i for i < len + 2]} (item = id or null) -/
def handle (op : String) (j : Json) : R Json := do
  match op with
  | "C16.collection" =>
    let members ← (← getArr j "members").mapM asNatList
    let cnts ← getNatList j "cfg_counts"
    let n := len members
    let items := (List.range (n + 2)).map fun i =>
      match getItem members i with
      | some x => jNat x
      | none => Json.null
    let locs := (List.range n).map fun i =>
      let kj := locate (members.map List.length) i
      Json.arr #[jNat kj.1, jNat kj.2]
    pure <| obj [("len", jNat n), ("mazes", jNats (mazes members)),
                 ("lengths", jNats (members.map List.length)), ("n_mazes", jNat (cfgNMazes cnts)),
                 ("items", Json.arr items.toArray), ("locs", Json.arr locs.toArray)]
  | "C16.machine" =>
    let members ← (← getArr j "members").mapM asNatList
    let ops ← (← getArr j "ops").mapM asOp
    let s0 := init members
    let s0 ← match optFld j "member_cfg_n" with
      | some v => do let l ← asNatList v; pure { s0 with memberCfgN := l }
      | none => pure s0
    let s0 ← match optFld j "extra_cfg_n" with
      | some v => do let n ← v.getNat?; pure { s0 with extraCfgN := n }
      | none => pure s0
    let r := run s0 ops
    -- slots that are dirty at the start (only non-empty when `member_cfg_n` was given)
    let d0 := (List.range members.length).filter fun k =>
      s0.memberCfgN[k]? != (members[k]?).map List.length
    pure <| obj [("outs", Json.arr (r.2.map jOut).toArray), ("final", jState r.1),
                 ("clean", Json.arr ((cleanFlags d0 ops).map Json.bool).toArray),
                 ("disciplined", Json.bool (disciplined d0 ops))]
  | _ => throw s!"unknown op {op}"

end MZ.Drv.C16
