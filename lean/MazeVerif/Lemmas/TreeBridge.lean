import MazeVerif.Lemmas.Wilson
import Mathlib.Combinatorics.SimpleGraph.Acyclic
/-! scratch prototype: "no cycle" with Mathlib's standard meaning, proved along the construction -/
namespace MZ
open SimpleGraph

theorem Adj.irrefl {E : List Edge} {a : Cell} : ¬ Adj E a a := by
  obtain ⟨a1, a2⟩ := a
  unfold Adj
  rintro (⟨h, _⟩ | ⟨h, _⟩ | ⟨h, _⟩ | ⟨h, _⟩) <;> simp at h

/-- the maze as a Mathlib simple graph on all integer cells -/
def graphOf (E : List Edge) : SimpleGraph Cell where
  Adj a b := Adj E a b
  symm := ⟨fun _ _ h => Adj.symm h⟩
  loopless := ⟨fun _ h => Adj.irrefl h⟩

theorem adj_append {E : List Edge} {e : Edge} {a b : Cell} : Adj (E ++ [e]) a b ↔ Adj E a b ∨ Adj [e] a b := by
  simp only [Adj, List.mem_append, List.mem_cons, List.not_mem_nil, or_false]
  constructor
  · rintro (⟨h1, h2 | h2⟩ | ⟨h1, h2 | h2⟩ | ⟨h1, h2 | h2⟩ | ⟨h1, h2 | h2⟩)
    · exact Or.inl (Or.inl ⟨h1, h2⟩)
    · exact Or.inr (Or.inl ⟨h1, h2⟩)
    · exact Or.inl (Or.inr (Or.inl ⟨h1, h2⟩))
    · exact Or.inr (Or.inr (Or.inl ⟨h1, h2⟩))
    · exact Or.inl (Or.inr (Or.inr (Or.inl ⟨h1, h2⟩)))
    · exact Or.inr (Or.inr (Or.inr (Or.inl ⟨h1, h2⟩)))
    · exact Or.inl (Or.inr (Or.inr (Or.inr ⟨h1, h2⟩)))
    · exact Or.inr (Or.inr (Or.inr (Or.inr ⟨h1, h2⟩)))
  · rintro ((⟨h1, h2⟩ | ⟨h1, h2⟩ | ⟨h1, h2⟩ | ⟨h1, h2⟩) | (⟨h1, h2⟩ | ⟨h1, h2⟩ | ⟨h1, h2⟩ | ⟨h1, h2⟩))
    · exact Or.inl ⟨h1, Or.inl h2⟩
    · exact Or.inr (Or.inl ⟨h1, Or.inl h2⟩)
    · exact Or.inr (Or.inr (Or.inl ⟨h1, Or.inl h2⟩))
    · exact Or.inr (Or.inr (Or.inr ⟨h1, Or.inl h2⟩))
    · exact Or.inl ⟨h1, Or.inr h2⟩
    · exact Or.inr (Or.inl ⟨h1, Or.inr h2⟩)
    · exact Or.inr (Or.inr (Or.inl ⟨h1, Or.inr h2⟩))
    · exact Or.inr (Or.inr (Or.inr ⟨h1, Or.inr h2⟩))

theorem adj_single {cur nb : Cell} (hn : nb ∈ nbrs cur) {a b : Cell} :
    Adj [edgeOf cur nb] a b ↔ ((a = cur ∧ b = nb) ∨ (a = nb ∧ b = cur)) := by
  obtain ⟨c1, c2⟩ := cur
  obtain ⟨a1, a2⟩ := a
  obtain ⟨b1, b2⟩ := b
  simp only [nbrs, List.mem_cons, List.not_mem_nil, or_false] at hn
  rcases hn with rfl | rfl | rfl | rfl
  · rw [edgeOf_right]; simp [Adj]; constructor
    · rintro (h | h) <;> omega
    · rintro (h | h) <;> omega
  · rw [edgeOf_left]; simp [Adj]; constructor
    · rintro (h | h) <;> omega
    · rintro (h | h) <;> omega
  · rw [edgeOf_down]; simp [Adj]; constructor
    · rintro (h | h) <;> omega
    · rintro (h | h) <;> omega
  · rw [edgeOf_up]; simp [Adj]; constructor
    · rintro (h | h) <;> omega
    · rintro (h | h) <;> omega

theorem graphOf_append {E : List Edge} {cur nb : Cell} (hn : nb ∈ nbrs cur) :
    graphOf (E ++ [edgeOf cur nb]) = graphOf E ⊔ edge cur nb := by
  ext a b
  have hne : cur ≠ nb := by
    obtain ⟨c1, c2⟩ := cur
    simp only [nbrs, List.mem_cons, List.not_mem_nil, or_false] at hn
    rcases hn with rfl | rfl | rfl | rfl <;> simp <;> omega
  simp only [graphOf, sup_adj, edge_adj]
  rw [adj_append, adj_single hn]
  constructor
  · rintro (h | h)
    · exact Or.inl h
    · refine Or.inr ⟨h, ?_⟩
      rcases h with ⟨rfl, rfl⟩ | ⟨rfl, rfl⟩
      · exact hne
      · exact hne.symm
  · rintro (h | ⟨h, _⟩)
    · exact Or.inl h
    · exact Or.inr h

/-- a cell no edge touches is reachable from nothing else -/
theorem not_reachable_of_isolated {E : List Edge} {u v : Cell} (hne : u ≠ v)
    (hiso : ∀ w, ¬ Adj E w v) : ¬ (graphOf E).Reachable u v := by
  intro hr
  rw [reachable_iff_reflTransGen] at hr
  rcases Relation.ReflTransGen.cases_tail hr with h | ⟨w, _, hw⟩
  · exact hne h.symm
  · exact hiso w hw

theorem adj_touches {E : List Edge} {w v : Cell} (h : Adj E w v) :
    ∃ e ∈ E, (e.1 = 0 ∨ e.1 = 1) ∧ ((ends e).1 = v ∨ (ends e).2 = v) := by
  obtain ⟨w1, w2⟩ := w
  obtain ⟨v1, v2⟩ := v
  rcases h with ⟨h1, h2⟩ | ⟨h1, h2⟩ | ⟨h1, h2⟩ | ⟨h1, h2⟩
  · exact ⟨_, h2, Or.inl rfl, Or.inr (by simp [ends] at h1 ⊢; omega)⟩
  · exact ⟨_, h2, Or.inl rfl, Or.inl (by simp [ends])⟩
  · exact ⟨_, h2, Or.inr rfl, Or.inr (by simp [ends] at h1 ⊢; omega)⟩
  · exact ⟨_, h2, Or.inr rfl, Or.inl (by simp [ends])⟩

/-- leaf attachment keeps the graph acyclic (Mathlib's `IsAcyclic`) -/
theorem acyc_leaf {rows cols start vis E} (h : TreeOn rows cols start vis E) (hac : (graphOf E).IsAcyclic)
    {cur nb : Cell} (hcur : cur ∈ vis) (hn : nb ∈ nbrs cur) (hnv : nb ∉ vis) :
    (graphOf (E ++ [edgeOf cur nb])).IsAcyclic := by
  rw [graphOf_append hn]
  refine IsAcyclic.sup_edge_of_not_reachable (not_reachable_of_isolated ?_ ?_) hac
  · intro e; exact hnv (e ▸ hcur)
  · intro w hw
    obtain ⟨e, he, _, hv⟩ := adj_touches hw
    have := h.eends e he
    rcases hv with hv | hv
    · exact hnv (hv ▸ this.1)
    · exact hnv (hv ▸ this.2)

theorem graphOf_congr {E E' : List Edge} (h : ∀ e, e ∈ E ↔ e ∈ E') : graphOf E = graphOf E' := by
  ext a b
  simp only [graphOf]
  exact ⟨Adj.mono (fun e he => (h e).mp he), Adj.mono (fun e he => (h e).mpr he)⟩

theorem acyc_nil : (graphOf []).IsAcyclic := by
  have : graphOf [] = ⊥ := by
    ext a b; simp [graphOf, Adj]
  rw [this]; exact isAcyclic_bot

end MZ
