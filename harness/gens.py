"""Shared by C01 / C12 (and C03, C19): run the real generators under the RNG tap, build driver requests, compare model and
implementation bit for bit, and judge the implementation's output with plain-Python oracles written from the property text."""
from __future__ import annotations
import warnings, zlib
import random as pyrandom
import numpy as np
from tap import Tap, ratio

GENS = ["dfs", "prim", "wilson", "percolation", "dfs_percolation"]


def pynum(x):
    if x is None: return None
    if isinstance(x, float):
        n, d = abs(x).as_integer_ratio()
        return {"ratio": [int(n), int(d)], "neg": bool(x < 0)}
    return {"int": int(x)}


def edges_of(clist) -> list:
    return sorted([int(d), int(i), int(j)] for d, i, j in zip(*np.nonzero(np.asarray(clist))))


def random_case(rng, maxn=8):
    gen = rng.choice(GENS)
    r, c = rng.choice([(1, 1), (1, rng.randint(2, maxn)), (rng.randint(2, maxn), 1)]) if rng.random() < 0.12 else (rng.randint(2, maxn), rng.randint(2, maxn))
    if rng.random() < 0.4: c = r
    kw = {}
    if gen in ("dfs", "prim", "dfs_percolation"):
        if rng.random() < 0.5:
            kw["accessible_cells"] = rng.choice([0, 1, 2, 3, r * c // 2, r * c - 1, r * c, r * c + 3, 0.0, 0.3, 0.5, 0.99, 1.0, round(rng.random(), 3)])
        if rng.random() < 0.4:
            kw["max_tree_depth"] = rng.choice([0, 1, 2, 3, 5, r + c, 2 * r * c, 0.2, 0.5, 1.0, round(rng.random(), 3)])
        if gen != "dfs_percolation" and rng.random() < 0.3:
            kw["do_forks"] = False
        if gen == "dfs" and rng.random() < 0.4:
            kw["randomized_stack"] = True
    if gen == "dfs_percolation":
        # signature has int|None for these two
        for k in ("accessible_cells", "max_tree_depth"):
            if isinstance(kw.get(k), float): kw.pop(k)
    if gen != "wilson" and rng.random() < 0.35:
        kw["start_coord"] = (rng.randrange(r), rng.randrange(c))
        # about 8% of these: a start_coord OUTSIDE the grid (one past an edge, negative, far away) or not a pair at all: the
        # generators must reject it with ValueError (`_random_start_coord`), never return a maze built from it.
        # Decided by a side RNG derived from the case drawn so far, so that the main case stream is the same as without this.
        side = pyrandom.Random(zlib.crc32(repr((gen, r, c, sorted((k, str(v)) for k, v in kw.items()))).encode()) ^ rng.getstate()[1][0])
        if side.random() < 0.08:
            kw["start_coord"] = side.choice(outside_starts(side, r, c))
    if gen in ("percolation", "dfs_percolation"):
        kw["p"] = rng.choice([0, 0.0, 0.1, 0.4, 0.7, 1.0, 1, round(rng.random(), 2)])
        if zlib.crc32(repr((gen, r, c, sorted((k, str(v)) for k, v in kw.items()))).encode()) % 8 == 0:
            del kw["p"]            # the documented default p = 0.4
    case = dict(gen=gen, rows=r, cols=c, kwargs=kw)
    if "start_coord" in kw and len(kw["start_coord"]) == 2 and zlib.crc32(repr(sorted((k, str(v)) for k, v in kw.items())).encode()) % 2:
        # the caller's own array as start_coord, changed in place by the caller right after the call (a sweep over start cells):
        # what the maze records about itself must not follow the caller's later edits
        case["start_as_array"] = True
    return case


def outside_starts(rng, r, c):
    return [(r, 0), (-1, 0), (0, c), (0, -1), (r + 3, c + 3), (r, rng.randrange(c)), (rng.randrange(r), c),
            (-1 - rng.randrange(3), rng.randrange(c)), (rng.randrange(r), -1 - rng.randrange(3)), (1,), (1, 1, 1), (0, 0, 0)]


def start_outside(case) -> str | None:
    """from the property text, independent of model and code: is the given start_coord NOT a cell of the grid?
    returns the kind ('not_a_pair' | 'outside_grid') or None when there is no start_coord / it is a grid cell"""
    sc = case["kwargs"].get("start_coord")
    if sc is None: return None
    sc = [int(x) for x in sc]
    if len(sc) != 2: return "not_a_pair"
    if 0 <= sc[0] < case["rows"] and 0 <= sc[1] < case["cols"]: return None
    return "outside_grid"


def exc_kind(e) -> str:
    for k in (ValueError, AssertionError, IndexError, KeyError):
        if isinstance(e, k): return k.__name__
    return "other:" + type(e).__name__


class GeneratorRaised(Exception):
    kind = "other"; draws = (); rands = ()


def judge_raise(case, e: "GeneratorRaised") -> str | None:
    """a generator call raised: acceptable ONLY as a ValueError for a start_coord that is not a cell of the grid, raised
    before any random number was consumed; everything else is a violation (text returned)"""
    so = start_outside(case)
    if so is None:
        return f"raised instead of returning a maze: {e}"
    if e.kind != "ValueError":
        return f"start_coord {case['kwargs']['start_coord']} is not a cell of the {case['rows']}x{case['cols']} grid ({so}) but the generator raised {e.kind} instead of ValueError: {e}"
    if e.draws or e.rands:
        return f"start_coord {case['kwargs']['start_coord']} rejected only after consuming random numbers (draws {list(e.draws)[:10]}, {len(e.rands)} rands)"
    return None


def judge_returned_for_outside(case, impl) -> str | None:
    """a maze was RETURNED: a violation whenever the given start_coord is not a cell of the grid (the unrepaired behaviour)"""
    so = start_outside(case)
    if so is None: return None
    r, c = case["rows"], case["cols"]
    detail = wellformed(r, c, impl) or "all stored connections stay inside the array"
    n_e, vis = len(impl["edges"]), impl.get("visited")
    extra = ""
    if vis is not None:
        ph = [v for v in vis if len(v) != 2 or not (0 <= v[0] < r and 0 <= v[1] < c)]
        if ph: extra += f"; visited_cells contains the phantom cell(s) {ph[:3]}"
    if impl.get("fully_connected") is True and len(reach_from(adj_map(r, c, impl["edges"]), (0, 0))) != r * c:
        extra += "; fully_connected=True although some cell is unreachable"
    return (f"start_coord {list(case['kwargs']['start_coord'])} is not a cell of the {r}x{c} grid ({so}) but the generator returned a maze "
            f"instead of raising ValueError: {detail} ({n_e} connections, start_coord in meta {impl.get('start')}){extra}")


def edge_rands(rng, p):
    """legal but adversarial np.random.rand output: values at and around the threshold p, 0.0 and just below 1"""
    p = float(p)
    pool = [0.0, float(np.nextafter(1.0, 0.0)), 0.5]
    if 0 <= p < 1: pool += [p]
    if p > 0: pool += [float(np.nextafter(p, 0.0))]
    if p < 1: pool += [float(np.nextafter(p, 1.0))] if np.nextafter(p, 1.0) < 1 else []
    return lambda shape: np.array([rng.choice(pool) for _ in range(int(np.prod(shape)))])


def run_impl(case, script=None, rand_script=None):
    """run the REAL generator under the tap"""
    from maze_dataset.generation.generators import LatticeMazeGenerators as LG
    warnings.filterwarnings("ignore")
    f = getattr(LG, "gen_" + case["gen"])
    if (case["rows"] + case["cols"] + len(case["kwargs"])) % 2:
        # the registry route: configurations name their generator and look it up here
        from maze_dataset.generation.generators import GENERATORS_MAP
        f = GENERATORS_MAP["gen_" + case["gen"]]
    shape = np.array([case["rows"], case["cols"]], dtype=case.get("shape_dtype", None))
    kwargs = dict(case["kwargs"]); start_arr = None
    if case.get("start_as_array") and "start_coord" in kwargs:
        start_arr = np.array(kwargs["start_coord"], dtype=np.int64); kwargs["start_coord"] = start_arr
    with Tap(script, rand_script) as t:
        try:
            m = f(shape, **kwargs)
        except Exception as e:
            g = GeneratorRaised(f"{type(e).__name__}: {str(e)[:200]} (draws so far {t.draws[:60]})")
            g.kind, g.draws, g.rands = exc_kind(e), list(t.draws), list(t.rands)
            raise g from e
    if start_arr is not None:
        start_arr += 1            # the caller moves on to the next start cell, re-using its array
    gm = m.generation_meta
    vis = gm.get("visited_cells")
    impl = dict(
        shape=list(m.connection_list.shape), dtype=str(m.connection_list.dtype), edges=edges_of(m.connection_list),
        draws=list(t.draws), rands=list(t.rands), arities=list(t.arities),
        meta_keys=sorted(gm.keys()), func_name=gm.get("func_name"),
        fully_connected=(bool(gm["fully_connected"]) if "fully_connected" in gm else None),
        visited=(sorted([int(x) for x in v] for v in vis) if vis is not None else None),
        start=([int(x) for x in gm["start_coord"]] if "start_coord" in gm else None),
        n_accessible_cells=gm.get("n_accessible_cells"), max_tree_depth=gm.get("max_tree_depth"),
    )
    try:
        impl["component"] = sorted([int(x) for x in v] for v in m.get_connected_component())
    except ValueError as e:
        impl["component"] = "ValueError"
    # the consequence the property names: a random path drawn on this maze (default options) connects its two endpoints
    if isinstance(impl["component"], list) and len(impl["component"]) >= 2 and case["rows"] > 1 and case["cols"] > 1:
        try:
            impl["random_path"] = [[int(a), int(b)] for a, b in m.generate_random_path()]
        except Exception as e:
            impl["random_path"] = f"{type(e).__name__}: {str(e)[:120]}"
    return impl, m


def request(case, impl):
    kw = case["kwargs"]
    rq = dict(op="C01.gen", gen=case["gen"], rows=case["rows"], cols=case["cols"], draws=impl["draws"])
    if "start_coord" in kw: rq["start"] = [int(x) for x in kw["start_coord"]]
    if case["gen"] in ("dfs", "prim", "dfs_percolation"):
        rq["accessible_cells"] = pynum(kw.get("accessible_cells"))
        rq["max_tree_depth"] = pynum(kw.get("max_tree_depth"))
        rq["do_forks"] = kw.get("do_forks", True)
        rq["randomized_stack"] = kw.get("randomized_stack", False)
    if case["gen"] in ("percolation", "dfs_percolation"):
        rq["p"] = ratio(float(kw.get("p", 0.4)))
        rq["rands"] = impl["rands"]
    return rq


REJECT_REASON = {"outside_grid": "start_outside_grid", "not_a_pair": "start_wrong_length"}


def compare(case, impl, o) -> list[str]:
    """exact agreement of model and implementation; `impl = {"rejected": True, ...}` when the real code raised ValueError
    for its start_coord: then the model must be in its error branch BECAUSE OF THE START (driver reason), and vice versa"""
    bad = []
    if "error" in o: return [f"driver error: {o['error']}"]
    if impl.get("rejected"):
        want = REJECT_REASON[start_outside(case)]
        if o.get("ok"): return [f"real code raised ValueError for start_coord {case['kwargs'].get('start_coord')} but the model returned a maze {sorted(o['edges'])[:8]}"]
        if o.get("reason") != want: return [f"real code raised ValueError for start_coord {case['kwargs'].get('start_coord')}; model returned none for reason {o.get('reason')!r}, expected {want!r}"]
        return []
    if not o.get("ok"):
        if o.get("reason") in REJECT_REASON.values():
            return [f"model rejects start_coord {case['kwargs'].get('start_coord')} ({o.get('reason')} = ValueError branch) but the real code returned a maze"]
        return [f"model run did not complete on the recorded draws (none, reason {o.get('reason')})"]
    if sorted(o["edges"]) != impl["edges"]: bad.append(f"connection bits differ: model {sorted(o['edges'])} impl {impl['edges']}")
    if "leftover" in o and o["leftover"] != 0: bad.append(f"model left {o['leftover']} recorded draws unused")
    if impl["visited"] is not None and "visited" in o and sorted(o["visited"]) != impl["visited"]:
        bad.append(f"visited_cells differ: model {sorted(o['visited'])} impl {impl['visited']}")
    if impl["fully_connected"] is not None and o.get("fully_connected") is not None and o["fully_connected"] != impl["fully_connected"]:
        bad.append(f"fully_connected differs: model {o['fully_connected']} impl {impl['fully_connected']}")
    if impl["start"] is not None and "start" in o and o["start"] != impl["start"]:
        bad.append(f"start_coord differs: model {o['start']} impl {impl['start']}")
    for k in ("n_accessible_cells", "max_tree_depth"):
        if impl.get(k) is not None and k in o and int(impl[k]) != o[k]:
            bad.append(f"{k} differs: model {o[k]} impl {impl[k]}")
    return bad


# ---------------------------------------------------------------- plain-Python oracles (from the property text) ----

def adj_map(rows, cols, edges):
    adj = {(i, j): [] for i in range(rows) for j in range(cols)}
    for d, i, j in edges:
        a, b = (i, j), ((i + 1, j) if d == 0 else (i, j + 1))
        if a in adj and b in adj:
            adj[a].append(b); adj[b].append(a)
    return adj


def reach_from(adj, s):
    seen, todo = {s}, [s]
    while todo:
        x = todo.pop()
        for y in adj.get(x, []):
            if y not in seen: seen.add(y); todo.append(y)
    return seen


def wellformed(rows, cols, impl) -> str | None:
    if impl["shape"] != [2, rows, cols]: return f"shape {impl['shape']} != [2,{rows},{cols}]"
    if impl["dtype"] != "bool": return f"dtype {impl['dtype']}"
    for d, i, j in impl["edges"]:
        if d == 0 and i == rows - 1: return f"connection ({d},{i},{j}) leaves the grid downwards"
        if d == 1 and j == cols - 1: return f"connection ({d},{i},{j}) leaves the grid to the right"
    return None


def spanning_tree(rows, cols, edges) -> str | None:
    n = rows * cols
    if len(edges) != n - 1: return f"{len(edges)} connections, expected {n-1}"
    parent = {}
    def find(x):
        while parent.setdefault(x, x) != x:
            parent[x] = parent[parent[x]]; x = parent[x]
        return x
    for d, i, j in edges:
        a, b = find((i, j)), find((i + 1, j) if d == 0 else (i, j + 1))
        if a == b: return f"cycle closed by connection ({d},{i},{j})"
        parent[a] = b
    adj = adj_map(rows, cols, edges)
    if len(reach_from(adj, (0, 0))) != n: return "not every cell reachable from (0,0)"
    return None


def is_default_dfs(case):
    kw = case["kwargs"]
    return case["gen"] in ("dfs", "prim") and all(k in ("start_coord", "randomized_stack") for k in kw)


def oracle_c01(case, impl) -> str | None:
    r, c = case["rows"], case["cols"]
    w = wellformed(r, c, impl)
    if w: return w
    if is_default_dfs(case) or case["gen"] == "wilson":
        s = spanning_tree(r, c, impl["edges"])
        if s: return f"default {case['gen']} did not return a spanning tree: {s}"
    if case["gen"] == "percolation":
        p = float(case["kwargs"].get("p", 0.4))
        if p == 0 and impl["edges"]: return "percolation p=0 produced connections"
        if p == 1 and len(impl["edges"]) != 2 * r * c - r - c: return f"percolation p=1 produced {len(impl['edges'])} of {2*r*c-r-c} lattice edges"
    return None


def oracle_c12(case, impl) -> str | None:
    r, c = case["rows"], case["cols"]
    adj = adj_map(r, c, impl["edges"])
    n = r * c
    kw = case["kwargs"]
    if impl["fully_connected"] is not True and impl["visited"] is None:
        return "maze not flagged fully connected records no visited_cells"
    start = tuple(impl["start"]) if impl["start"] is not None else None
    if impl["visited"] is not None:
        if start is None: return "visited_cells recorded without start_coord"
        want = sorted([a, b] for a, b in reach_from(adj, start))
        if want != impl["visited"]:
            return f"visited_cells {impl['visited']} != cells reachable from start {list(start)}: {want}"
    comp = impl.get("component")
    if comp == "ValueError": return "get_connected_component() raised: maze neither flagged nor carrying visited_cells"
    if isinstance(comp, list) and impl["visited"] is not None and impl["fully_connected"] is not True:
        # the component offered for endpoint sampling is the recorded visited set of THIS maze (not of another maze with equal walls)
        if sorted(map(list, comp)) != sorted(map(list, impl["visited"])):
            return f"get_connected_component() returned {sorted(map(list, comp))[:6]}… ({len(comp)} cells) but this maze records visited_cells {impl['visited'][:6]}… ({len(impl['visited'])} cells)"
    if isinstance(comp, list) and impl["fully_connected"] is True and len(comp) != n:
        return f"maze flagged fully_connected but get_connected_component() returned {len(comp)} of {n} cells"
    if comp:
        rs = reach_from(adj, tuple(comp[0]))
        for v in comp:
            if tuple(v) not in rs: return f"cells {comp[0]} and {v} of get_connected_component() are not mutually reachable (random endpoints could be unsolvable)"
    rp = impl.get("random_path")
    if isinstance(rp, str): return f"generate_random_path() on the generated maze raised {rp} although its component has {len(comp)} cells"
    if rp is not None:
        if len(rp) < 2 or rp[0] == rp[-1]: return f"generate_random_path() returned {rp}: endpoints are not two distinct cells"
        for a, b in zip(rp, rp[1:]):
            if tuple(b) not in adj[tuple(a)]: return f"generate_random_path() returned a path that steps {a}->{b} through a wall"
        if isinstance(comp, list) and (rp[0] not in [list(v) for v in comp] or rp[-1] not in [list(v) for v in comp]):
            return f"generate_random_path() endpoints {rp[0]}, {rp[-1]} are not cells of get_connected_component()"
    full = len(reach_from(adj, (0, 0))) == n
    if impl["fully_connected"] is True and not full: return "flagged fully_connected but some cell is unreachable"
    if case["gen"] in ("dfs", "prim"):
        if impl["fully_connected"] != full: return f"fully_connected={impl['fully_connected']} but connectedness is {full}"
        vis = impl["visited"]
        nacc = impl["n_accessible_cells"]
        if len(impl["edges"]) + 1 != len(vis): return f"{len(impl['edges'])} connections over {len(vis)} visited cells: not a tree"
        for d, i, j in impl["edges"]:
            if [i, j] not in vis or ([i + 1, j] if d == 0 else [i, j + 1]) not in vis: return f"connection ({d},{i},{j}) touches an unvisited cell"
        if len(vis) > max(1, nacc): return f"{len(vis)} visited cells exceed accessible_cells={nacc}"
        depth_free = "max_tree_depth" not in kw
        if depth_free and kw.get("do_forks", True) and len(vis) != min(max(1, nacc), n):
            return f"{len(vis)} visited cells, expected exactly {min(max(1, nacc), n)}"
        if not kw.get("do_forks", True):
            deg = [len(adj[tuple(v)]) for v in vis]
            if any(x > 2 for x in deg) or (len(vis) > 1 and sorted(deg)[:2] != [1, 1]): return f"do_forks=False but the tree is not a single corridor (degrees {deg})"
    return None
