import MazeVerif.DriverOps.Util
import MazeVerif.DriverOps.C16
/-! Line protocol driver: one JSON request per line on stdin, one JSON reply per line on stdout.
    Requests carry `"op": "<Cxx>.<name>"`; the prefix selects the per-property handler.
    Imports only Mathlib-free modules so it links as an executable. -/
open Lean MZ.Drv

def dispatch (j : Json) : R Json := do
  let op ← getStr j "op"
  match (op.splitOn ".").head! with
  | "C16" => C16.handle op j
  | "ping" => pure (obj [("pong", true)])
  | p => throw s!"no handler for prefix {p}"

partial def loop (h : IO.FS.Stream) (out : IO.FS.Stream) : IO Unit := do
  let line ← h.getLine
  if line.isEmpty then return ()
  if line.trimAscii.isEmpty then loop h out else
  let reply := match Json.parse line with
    | .error e => obj [("error", Json.str s!"parse: {e}")]
    | .ok j => match dispatch j with
      | .ok r => r
      | .error e => obj [("error", Json.str e)]
  out.putStrLn (Json.compress reply)
  loop h out

def main : IO Unit := do
  let out ← IO.getStdout
  loop (← IO.getStdin) out
  out.flush
