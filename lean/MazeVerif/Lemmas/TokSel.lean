import MazeVerif.Lemmas.TokAdj
/-! The selected edge sets (`AllLatticeEdges`, `ConnectionEdges`) and what `ValidOrder` implies about the emitted order. -/
namespace MZ.Tok

/-- canonical orientation produced by `lattice_connection_array` / `connection_list_to_adj_list`: trailing = leading + (0,1) or + (1,0) -/
def Fwd (e : OE) : Prop := e.2 = (e.1.1, e.1.2 + 1) ∨ e.2 = (e.1.1 + 1, e.1.2)

theorem Fwd.latAdj {e : OE} (h : Fwd e) : LatAdj e := by
  unfold Fwd at h; unfold LatAdj
  rcases h with h | h
  · exact Or.inr (Or.inr (Or.inl h))
  · exact Or.inl h

theorem flipE_flipE (e : OE) : flipE (flipE e) = e := rfl

theorem Fwd.normE_self {e : OE} (h : Fwd e) : normE e = e := by
  obtain ⟨⟨a1, a2⟩, ⟨b1, b2⟩⟩ := e
  unfold Fwd at h; simp only [Prod.mk.injEq] at h
  unfold normE
  rcases h with ⟨h1, h2⟩ | ⟨h1, h2⟩
  · subst h1 h2; simp
  · subst h1 h2; simp

theorem Fwd.normE_flip {e : OE} (h : Fwd e) : normE (flipE e) = e := by
  obtain ⟨⟨a1, a2⟩, ⟨b1, b2⟩⟩ := e
  unfold Fwd at h; simp only [Prod.mk.injEq] at h
  unfold normE flipE
  rcases h with ⟨h1, h2⟩ | ⟨h1, h2⟩
  · subst h1 h2
    have : ¬ (a2 + 1 ≤ a2) := by omega
    simp [this]
  · subst h1 h2
    have h1 : ¬ (a1 + 1 < a1) := by omega
    have h2 : ¬ (a1 + 1 = a1) := by omega
    simp [h1, h2]

theorem normE_cases (e : OE) : normE e = e ∨ normE e = flipE e := by
  unfold normE; split
  · exact Or.inl rfl
  · exact Or.inr rfl

theorem mem_latticeEdges {n : Nat} {e : OE} :
    e ∈ latticeEdges n ↔
      (∃ i j, i < n ∧ j + 1 < n ∧ e = ((i, j), (i, j + 1))) ∨ (∃ i j, i + 1 < n ∧ j < n ∧ e = ((i, j), (i + 1, j))) := by
  simp only [latticeEdges, List.mem_append, List.mem_flatMap, List.mem_map, List.mem_range]
  constructor
  · rintro (⟨i, hi, j, hj, rfl⟩ | ⟨i, hi, j, hj, rfl⟩)
    · exact Or.inl ⟨i, j, hi, by omega, rfl⟩
    · exact Or.inr ⟨i, j, by omega, hj, rfl⟩
  · rintro (⟨i, j, hi, hj, rfl⟩ | ⟨i, j, hi, hj, rfl⟩)
    · exact Or.inl ⟨i, hi, j, by omega, rfl⟩
    · exact Or.inr ⟨i, by omega, j, hj, rfl⟩

theorem mem_ndindex3 {rows cols : Nat} {t : Nat × Nat × Nat} :
    t ∈ ndindex3 rows cols ↔ t.1 < 2 ∧ t.2.1 < rows ∧ t.2.2 < cols := by
  obtain ⟨d, x, y⟩ := t
  simp only [ndindex3, List.mem_flatMap, List.mem_map, List.mem_range, Prod.mk.injEq]
  constructor
  · rintro ⟨d', hd, x', hx, y', hy, rfl, rfl, rfl⟩; exact ⟨hd, hx, hy⟩
  · rintro ⟨hd, hx, hy⟩; exact ⟨d, hd, x, hx, y, hy, rfl, rfl, rfl⟩

theorem mem_connEdges {m : Maze} {w : Bool} {e : OE} :
    e ∈ connEdges m w ↔ ∃ d x y, d < 2 ∧ x < m.rows ∧ y < m.cols ∧ connArr m w d x y = true ∧ e = endsOf (d, x, y) := by
  simp only [connEdges, List.mem_map, List.mem_filter, mem_ndindex3]
  constructor
  · rintro ⟨⟨d, x, y⟩, ⟨⟨hd, hx, hy⟩, hc⟩, rfl⟩; exact ⟨d, x, y, hd, hx, hy, hc, rfl⟩
  · rintro ⟨d, x, y, hd, hx, hy, hc, rfl⟩; exact ⟨(d, x, y), ⟨⟨hd, hx, hy⟩, hc⟩, rfl⟩

theorem fwd_endsOf {d x y : Nat} (hd : d < 2) : Fwd (endsOf (d, x, y)) := by
  have : d = 0 ∨ d = 1 := by omega
  rcases this with rfl | rfl
  · right; simp [endsOf]
  · left; simp [endsOf]

theorem fwd_of_mem_selEdges {sub : Subset} {m : Maze} {es : List OE} (h : selEdges sub m = some es) : ∀ e ∈ es, Fwd e := by
  intro e he
  cases sub with
  | all =>
    simp only [selEdges] at h
    split at h
    · cases h
      rcases mem_latticeEdges.1 he with ⟨i, j, _, _, rfl⟩ | ⟨i, j, _, _, rfl⟩
      · exact Or.inl rfl
      · exact Or.inr rfl
    · cases h
  | conn w =>
    simp only [selEdges, Option.some.injEq] at h; subst h
    obtain ⟨d, x, y, hd, _, _, _, rfl⟩ := mem_connEdges.1 he
    exact fwd_endsOf hd

theorem lexsort_perm (es : List OE) : (lexsort es).Perm es := List.mergeSort_perm es lexLe

/-- every legal emission order consists of lattice-neighbour pairs -/
theorem latAdj_of_validOrder {p : Permuter} {shuffle : Bool} {es order : List OE} (hes : ∀ e ∈ es, Fwd e)
    (h : ValidOrder p shuffle es order) : ∀ e ∈ order, LatAdj e := by
  intro e he
  cases p with
  | sorted =>
    have hp : order.Perm (lexsort es) := by
      simp only [ValidOrder, permuteDet] at h
      cases shuffle
      · simp at h; rw [h]
      · simpa using h
    exact (hes e ((lexsort_perm es).mem_iff.1 (hp.mem_iff.1 he))).latAdj
  | both =>
    have hp : order.Perm (es ++ es.map flipE) := by
      simp only [ValidOrder, permuteDet] at h
      cases shuffle
      · simp at h; rw [h]
      · simpa using h
    rcases List.mem_append.1 (hp.mem_iff.1 he) with hm | hm
    · exact (hes e hm).latAdj
    · obtain ⟨e', he', rfl⟩ := List.mem_map.1 hm
      exact (hes e' he').latAdj.flip
  | random =>
    have hp : (order.map normE).Perm es := by
      simp only [ValidOrder] at h
      cases shuffle
      · simp at h; rw [h]
      · simpa using h
    have hn : Fwd (normE e) := hes _ (hp.mem_iff.1 (List.mem_map_of_mem he))
    rcases normE_cases e with hc | hc
    · rw [hc] at hn; exact hn.latAdj
    · rw [hc] at hn; have := hn.latAdj.flip; rwa [flipE_flipE] at this

theorem validOrderB_iff {p : Permuter} {shuffle : Bool} {es order : List OE} :
    validOrderB p shuffle es order = true ↔ ValidOrder p shuffle es order := by
  cases p <;> cases shuffle <;> simp [validOrderB, ValidOrder, List.isPerm_iff]

end MZ.Tok
