import MazeVerif.Lemmas.WilsonRefine
import MazeVerif.Lemmas.TreeAcyclic
import MazeVerif.Lemmas.Views
import MazeVerif.Model.WilsonProb
/-! Soundness of the executable spanning-tree test `WProb.isSpanningMask` used by the C19 probability tables:
    a mask that passes the test decodes to a spanning tree of the grid in the Prop-level sense of C01.
    Part A is generic: a well-formed, duplicate-free, connected connection list with `rows*cols - 1` entries is
    acyclic (a spanning tree grown leaf by leaf inside it must use every entry). -/
namespace MZ.WRef
open MZ MZ.WStep MZ.WProb SimpleGraph

/-! ### A. connected + `n - 1` connections ⇒ acyclic -/

theorem reach_crosses {E : List Edge} {vis : List Cell} {start t : Cell} (hs : start ∈ vis) (ht : t ∉ vis)
    (h : Reach E start t) : ∃ a b, a ∈ vis ∧ b ∉ vis ∧ Adj E a b := by
  induction h with
  | refl => exact absurd hs ht
  | @step b c _ hadj ih =>
    by_cases hb : b ∈ vis
    · exact ⟨b, c, hb, ht, hadj⟩
    · exact ih hb

theorem exists_spanning_subtree {rows cols : Nat} {E : List Edge} (hwf : WF rows cols E)
    (hreach : ∀ a b, inGrid rows cols a → inGrid rows cols b → Reach E a b) {start : Cell}
    (hs : inGrid rows cols start) : ∀ (d : Nat) (vis : List Cell) (T : List Edge),
    ATree rows cols start vis T → (∀ e ∈ T, e ∈ E) → vis.length + d = rows * cols →
    ∃ vis' T', ATree rows cols start vis' T' ∧ (∀ e ∈ T', e ∈ E) ∧ vis'.length = rows * cols := by
  intro d
  induction d with
  | zero => intro vis T hT hsub hlen; exact ⟨vis, T, hT, hsub, by omega⟩
  | succ d ih =>
    intro vis T hT hsub hlen
    by_cases hall : ∀ t, inGrid rows cols t → t ∈ vis
    · exfalso
      have hc := List.subperm_of_subset (l₁ := cells rows cols) (l₂ := vis) (cells_nodup rows cols)
        (fun c hc => hall c (mem_cells.mp hc))
      have := hc.length_le
      rw [length_cells] at this
      omega
    · obtain ⟨t, ht⟩ := Classical.not_forall.mp hall
      obtain ⟨htg, htv⟩ := Classical.not_imp.mp ht
      obtain ⟨a, b, ha, hb, hadj⟩ := reach_crosses hT.1.hstart htv (hreach start t hs htg)
      have hn : b ∈ nbrs a := Views.adj_nbrs hadj
      have he : edgeOf a b ∈ E := (Views.adj_iff_edgeOf hn).mp hadj
      have hbg : inGrid rows cols b := (Views.adj_inGrid hwf hadj).2
      have hT' := hT.leaf ha hn hb hbg
      refine ih (vis ++ [b]) (T ++ [edgeOf a b]) hT' ?_ (by simp only [List.length_append, List.length_singleton]; omega)
      intro e hmem
      simp only [List.mem_append, List.mem_singleton] at hmem
      rcases hmem with hmem | rfl
      · exact hsub e hmem
      · exact he

/-- a connected, well-formed connection list with exactly `rows*cols - 1` entries has no cycle -/
theorem acyclic_of_connected_count {rows cols : Nat} (hr : 0 < rows) (hc : 0 < cols) {E : List Edge}
    (hwf : WF rows cols E) (hlen : E.length + 1 = rows * cols)
    (hreach : ∀ a b, inGrid rows cols a → inGrid rows cols b → Reach E a b) : (graphOf E).IsAcyclic := by
  have hs : inGrid rows cols ((0 : Int), (0 : Int)) := by simp only [inGrid]; omega
  have h0 : ATree rows cols (0, 0) [(0, 0)] [] :=
    ⟨⟨by simp, by intro c hc; simp only [List.mem_singleton] at hc; subst hc; exact hs, by simp, by simp, by simp,
      by simp, by intro c hc; simp only [List.mem_singleton] at hc; subst hc; exact .refl _, by simp⟩, acyc_nil⟩
  have h1 : 1 ≤ rows * cols := Nat.mul_pos hr hc
  obtain ⟨vis', T', hT, hsub, hl⟩ := exists_spanning_subtree hwf hreach hs (rows * cols - 1) [(0, 0)] [] h0
    (by simp) (by simp only [List.length_singleton]; omega)
  have hTl := hT.1.len
  have hsp : List.Subperm T' E := List.subperm_of_subset hT.1.enodup hsub
  have hp : T'.Perm E := hsp.perm_of_length_le (by omega)
  rw [← graphOf_congr (fun e => hp.mem_iff)]
  exact hT.2

/-! ### B. the executable test -/

theorem eraseDups_nodup : ∀ (k : Nat) (l : List Nat), l.length ≤ k → l.eraseDups.Nodup := by
  intro k
  induction k with
  | zero => intro l hl; have : l = [] := List.length_eq_zero_iff.mp (by omega); subst this; simp
  | succ k ih =>
    intro l hl
    cases l with
    | nil => simp
    | cons a as =>
      rw [List.eraseDups_cons, List.nodup_cons]
      refine ⟨?_, ih _ ?_⟩
      · rw [List.mem_eraseDups]; simp
      · have := List.length_filter_le (fun b => !b == a) as
        simp only [List.length_cons] at hl; omega

theorem grow_inv (adj : Nat → List Nat) (P : Nat → Prop) (hP : ∀ i, P i → ∀ j ∈ adj i, P j) :
    ∀ (fuel : Nat) (seen : List Nat), seen.Nodup → (∀ i ∈ seen, P i) →
      (isSpanningMask.grow adj fuel seen).Nodup ∧ ∀ i ∈ isSpanningMask.grow adj fuel seen, P i := by
  intro fuel
  induction fuel with
  | zero => intro seen hnd hp; simp only [isSpanningMask.grow]; exact ⟨hnd, hp⟩
  | succ f ih =>
    intro seen hnd hp
    simp only [isSpanningMask.grow]
    split
    · exact ⟨hnd, hp⟩
    · apply ih
      · rw [List.nodup_append]
        refine ⟨hnd, eraseDups_nodup _ _ (Nat.le_refl _), ?_⟩
        intro a ha b hb hab
        subst hab
        rw [List.mem_eraseDups] at hb
        simp only [List.mem_filter, Bool.not_eq_true'] at hb
        have := List.contains_iff_mem.mpr ha
        rw [this] at hb
        exact absurd hb.2 (by simp)
      · intro i hi
        rw [List.mem_append, List.mem_eraseDups] at hi
        rcases hi with hi | hi
        · exact hp i hi
        · simp only [List.mem_filter, List.mem_flatMap] at hi
          obtain ⟨⟨k, hk, hik⟩, _⟩ := hi
          exact hP k (hp k hk) i hik

theorem length_filterMap_ite {α β : Type} (p : α → Bool) (g : α → β) : ∀ l : List α,
    (l.filterMap fun b => if p b then some (g b) else none).length = (l.filter p).length
  | [] => rfl
  | a :: l => by
    cases h : p a <;> simp [h, length_filterMap_ite p g l]

theorem edgesOfMask_length (rows cols m : Nat) :
    (edgesOfMask rows cols m).length = ((List.range (2 * (rows * cols))).filter fun b => bit m b).length := by
  unfold edgesOfMask
  rw [← Nat.mul_assoc]
  exact length_filterMap_ite (fun b => bit m b) _ _

/-- a legal set bit decodes to a connection between two cells of the grid -/
theorem legal_bit_wf {rows cols b : Nat} (hc : 0 < cols) (hb : b < 2 * (rows * cols))
    (hl : (if b < rows * cols then decide (b / cols + 1 < rows) else decide ((b - rows * cols) % cols + 1 < cols)) = true) :
    ((edgeOfBit rows cols b).1 = 0 ∨ (edgeOfBit rows cols b).1 = 1) ∧
    inGrid rows cols (ends (edgeOfBit rows cols b)).1 ∧ inGrid rows cols (ends (edgeOfBit rows cols b)).2 := by
  by_cases hlt : b < rows * cols
  · simp only [hlt, if_true, decide_eq_true_eq] at hl
    have hm := Nat.mod_lt b hc
    simp only [edgeOfBit, Nat.div_eq_of_lt hlt, Nat.mod_eq_of_lt hlt, ends, if_true, inGrid]
    generalize b / cols = q at *
    generalize b % cols = t at *
    exact ⟨by simp, by omega⟩
  · simp only [hlt, if_false, decide_eq_true_eq] at hl
    obtain ⟨b', rfl⟩ : ∃ b', b = rows * cols + b' := ⟨b - rows * cols, by omega⟩
    have hb' : b' < rows * cols := by omega
    have hn : 0 < rows * cols := by omega
    have hq := div_lt_rows hb'
    simp only [Nat.add_sub_cancel_left] at hl
    simp only [edgeOfBit, Nat.add_div_left _ hn, Nat.add_mod_left, Nat.div_eq_of_lt hb', Nat.mod_eq_of_lt hb', ends,
      inGrid]
    generalize b' / cols = q at *
    generalize b' % cols = t at *
    simp only [Nat.zero_add, Nat.succ_ne_zero, if_false]
    exact ⟨by simp, by omega⟩

/-- **Soundness of the executable test.** A mask accepted by `isSpanningMask` decodes to a spanning tree of the grid:
    well formed, duplicate-free, `rows*cols - 1` connections, all cells mutually reachable, no cycle. -/
theorem isSpanningMask_sound {rows cols m : Nat} (hr : 0 < rows) (hc : 0 < cols)
    (h : isSpanningMask rows cols m = true) :
    WF rows cols (edgesOfMask rows cols m) ∧ (edgesOfMask rows cols m).Nodup ∧
    (edgesOfMask rows cols m).length + 1 = rows * cols ∧
    (∀ a b, inGrid rows cols a → inGrid rows cols b → Reach (edgesOfMask rows cols m) a b) ∧
    (graphOf (edgesOfMask rows cols m)).IsAcyclic := by
  simp only [isSpanningMask, Bool.and_eq_true, beq_iff_eq, decide_eq_true_eq, List.all_eq_true] at h
  obtain ⟨⟨⟨hlegal, _⟩, hcount⟩, hgrow⟩ := h
  have hn : 0 < rows * cols := Nat.mul_pos hr hc
  have hwf : WF rows cols (edgesOfMask rows cols m) := by
    intro e he
    obtain ⟨b, hb, hbit, rfl⟩ := mem_edgesOfMask.mp he
    rw [Nat.mul_assoc] at hb
    exact legal_bit_wf hc hb (hlegal b (by simp only [List.mem_filter, List.mem_range]; exact ⟨hb, hbit⟩))
  have hlen : (edgesOfMask rows cols m).length + 1 = rows * cols := by rw [edgesOfMask_length]; exact hcount
  -- reachability from cell 0
  have hP : ∀ i, (i < rows * cols ∧ Reach (edgesOfMask rows cols m) (cellOf cols 0) (cellOf cols i)) →
      ∀ j ∈ (nbrsOf rows cols i).filter (fun j => bit m (edgeBit rows cols i j)),
        j < rows * cols ∧ Reach (edgesOfMask rows cols m) (cellOf cols 0) (cellOf cols j) := by
    rintro i ⟨hi, hri⟩ j hj
    simp only [List.mem_filter] at hj
    obtain ⟨hjlt, hjn⟩ := mem_nbrsOf_lt hc hi hj.1
    obtain ⟨hblt, hbe⟩ := edgeBit_spec hc hi hjlt hjn
    have hmem : edgeOf (cellOf cols i) (cellOf cols j) ∈ edgesOfMask rows cols m :=
      mem_edgesOfMask.mpr ⟨_, hblt, hj.2, hbe.symm⟩
    exact ⟨hjlt, .step hri (adj_edgeOf hjn hmem)⟩
  obtain ⟨gnd, gP⟩ := grow_inv _ _ hP (rows * cols) [0] (by simp)
    (by intro i hi; simp only [List.mem_singleton] at hi; subst hi; exact ⟨hn, .refl _⟩)
  have hall : ∀ i, i < rows * cols → Reach (edgesOfMask rows cols m) (cellOf cols 0) (cellOf cols i) := by
    intro i hi
    have hsp := List.subperm_of_subset gnd (l₂ := List.range (rows * cols))
      (fun k hk => List.mem_range.mpr (gP k hk).1)
    have hperm := hsp.perm_of_length_le (by rw [List.length_range]; omega)
    exact (gP i (hperm.symm.subset (List.mem_range.mpr hi))).2
  have hreach : ∀ a b, inGrid rows cols a → inGrid rows cols b → Reach (edgesOfMask rows cols m) a b := by
    intro a b ha hb
    obtain ⟨i, hi, rfl⟩ := inGrid_cellOf ha
    obtain ⟨j, hj, rfl⟩ := inGrid_cellOf hb
    exact (hall i hi).symm.trans (hall j hj)
  exact ⟨hwf, edgesOfMask_nodup _ _ _, hlen, hreach, acyclic_of_connected_count hr hc hwf hlen hreach⟩

/-! ### C. completeness of the executable test -/

theorem legal_of_wf {rows cols b : Nat} (hb : b < 2 * (rows * cols))
    (hw : inGrid rows cols (ends (edgeOfBit rows cols b)).2) :
    (if b < rows * cols then decide (b / cols + 1 < rows) else decide ((b - rows * cols) % cols + 1 < cols)) = true := by
  by_cases hlt : b < rows * cols
  · simp only [hlt, if_true, decide_eq_true_eq]
    simp only [edgeOfBit, Nat.div_eq_of_lt hlt, Nat.mod_eq_of_lt hlt, ends, if_true, inGrid] at hw
    generalize b / cols = q at *
    omega
  · simp only [hlt, if_false, decide_eq_true_eq]
    obtain ⟨b', rfl⟩ : ∃ b', b = rows * cols + b' := ⟨b - rows * cols, by omega⟩
    have hb' : b' < rows * cols := by omega
    have hn : 0 < rows * cols := by omega
    simp only [Nat.add_sub_cancel_left]
    simp only [edgeOfBit, Nat.add_div_left _ hn, Nat.add_mod_left, Nat.div_eq_of_lt hb', Nat.mod_eq_of_lt hb', ends,
      inGrid, Nat.zero_add, Nat.succ_ne_zero, if_false] at hw
    generalize b' % cols = t at *
    omega

/-- the executable adjacency list contains every stored adjacency -/
theorem adj_complete {rows cols m i j : Nat} (hc : 0 < cols) (hi : i < rows * cols) (hj : j < rows * cols)
    (h : Adj (edgesOfMask rows cols m) (cellOf cols i) (cellOf cols j)) :
    j ∈ (nbrsOf rows cols i).filter (fun j => bit m (edgeBit rows cols i j)) := by
  have hn : cellOf cols j ∈ nbrs (cellOf cols i) := Views.adj_nbrs h
  have he := (Views.adj_iff_edgeOf hn).mp h
  have hg : inGrid rows cols (cellOf cols j) := cellOf_inGrid hc hj
  have hjn : j ∈ nbrsOf rows cols i := by
    have : cellOf cols j ∈ gridNbrs rows cols (cellOf cols i) := by
      simp only [gridNbrs, List.mem_filter, decide_eq_true_eq]; exact ⟨hn, hg⟩
    rw [← nbrsOf_map' hc hi] at this
    exact mem_map_cellOf.mp this
  obtain ⟨hblt, hbe⟩ := edgeBit_spec hc hi hj hn
  obtain ⟨b, _, hbit, hbeq⟩ := mem_edgesOfMask.mp he
  have : b = edgeBit rows cols i j := edgeOfBit_inj (hbeq.symm.trans hbe.symm)
  subst this
  simp only [List.mem_filter]
  exact ⟨hjn, hbit⟩

theorem nodup_lt_length {n : Nat} {l : List Nat} (hnd : l.Nodup) (hlt : ∀ i ∈ l, i < n) : l.length ≤ n := by
  have := (List.subperm_of_subset hnd (l₂ := List.range n) (fun k hk => List.mem_range.mpr (hlt k hk))).length_le
  rwa [List.length_range] at this

/-- with `n` rounds of fuel the search closes up: its result is closed under the adjacency lists -/
theorem grow_closed (adj : Nat → List Nat) (n : Nat) (hadj : ∀ i, i < n → ∀ j ∈ adj i, j < n) :
    ∀ (fuel : Nat) (seen : List Nat), seen.Nodup → (∀ i ∈ seen, i < n) → n + 1 ≤ seen.length + fuel →
      (∀ i ∈ isSpanningMask.grow adj fuel seen, ∀ j ∈ adj i, j ∈ isSpanningMask.grow adj fuel seen) ∧
      ∀ i ∈ seen, i ∈ isSpanningMask.grow adj fuel seen := by
  intro fuel
  induction fuel with
  | zero =>
    intro seen hnd hlt hlen
    have := nodup_lt_length hnd hlt
    omega
  | succ f ih =>
    intro seen hnd hlt hlen
    simp only [isSpanningMask.grow]
    split
    · next hemp =>
      refine ⟨?_, fun i hi => hi⟩
      intro i hi j hj
      cases hc : seen.contains j
      · exfalso
        have : j ∈ (seen.flatMap adj).filter (fun j => !seen.contains j) := by
          simp only [List.mem_filter, List.mem_flatMap, hc, Bool.not_false, and_true]
          exact ⟨i, hi, hj⟩
        rw [List.isEmpty_iff.mp hemp] at this
        cases this
      · exact List.contains_iff_mem.mp hc
    · next hne =>
      generalize hmore : (seen.flatMap adj).filter (fun j => !seen.contains j) = more at hne
      have hmem : ∀ j ∈ more, j ∉ seen ∧ ∃ i ∈ seen, j ∈ adj i := by
        intro j hj
        rw [← hmore] at hj
        simp only [List.mem_filter, List.mem_flatMap, Bool.not_eq_true'] at hj
        refine ⟨fun hjs => ?_, hj.1⟩
        rw [List.contains_iff_mem.mpr hjs] at hj
        exact absurd hj.2 (by simp)
      have hnd' : (seen ++ more.eraseDups).Nodup := by
        rw [List.nodup_append]
        refine ⟨hnd, eraseDups_nodup _ _ (Nat.le_refl _), ?_⟩
        intro a ha b hb hab
        subst hab
        rw [List.mem_eraseDups] at hb
        exact (hmem a hb).1 ha
      have hlt' : ∀ i ∈ seen ++ more.eraseDups, i < n := by
        intro i hi
        rw [List.mem_append, List.mem_eraseDups] at hi
        rcases hi with hi | hi
        · exact hlt i hi
        · obtain ⟨_, k, hk, hik⟩ := hmem i hi
          exact hadj k (hlt k hk) i hik
      have hpos : 1 ≤ more.eraseDups.length := by
        cases hm : more with
        | nil => rw [hm] at hne; simp at hne
        | cons a as => rw [List.eraseDups_cons]; simp
      obtain ⟨c1, c2⟩ := ih (seen ++ more.eraseDups) hnd' hlt'
        (by simp only [List.length_append]; omega)
      exact ⟨c1, fun i hi => c2 i (List.mem_append_left _ hi)⟩

/-- **Completeness of the executable test.** A mask with no bit outside the `2*rows*cols` slots whose decoded
    connection list is well formed, connected and has `rows*cols - 1` entries is accepted by `isSpanningMask`. -/
theorem isSpanningMask_complete {rows cols m : Nat} (hr : 0 < rows) (hc : 0 < cols)
    (hm : m < 2 ^ (2 * (rows * cols))) (hwf : WF rows cols (edgesOfMask rows cols m))
    (hlen : (edgesOfMask rows cols m).length + 1 = rows * cols)
    (hreach : ∀ a b, inGrid rows cols a → inGrid rows cols b → Reach (edgesOfMask rows cols m) a b) :
    isSpanningMask rows cols m = true := by
  have hn : 0 < rows * cols := Nat.mul_pos hr hc
  simp only [isSpanningMask, Bool.and_eq_true, beq_iff_eq, decide_eq_true_eq, List.all_eq_true]
  refine ⟨⟨⟨?_, hm⟩, by rw [← edgesOfMask_length]; exact hlen⟩, ?_⟩
  · intro b hb
    simp only [List.mem_filter, List.mem_range] at hb
    have hmem : edgeOfBit rows cols b ∈ edgesOfMask rows cols m :=
      mem_edgesOfMask.mpr ⟨b, by rw [Nat.mul_assoc]; exact hb.1, hb.2, rfl⟩
    exact legal_of_wf hb.1 (hwf _ hmem).2.2
  · generalize hadj : (fun i => (nbrsOf rows cols i).filter (fun j => bit m (edgeBit rows cols i j))) = adj
    have hadjlt : ∀ i, i < rows * cols → ∀ j ∈ adj i, j < rows * cols := by
      intro i hi j hj
      rw [← hadj] at hj
      simp only [List.mem_filter] at hj
      exact (mem_nbrsOf_lt hc hi hj.1).1
    have h0nd : ([0] : List Nat).Nodup := by simp
    have h0lt : ∀ i ∈ ([0] : List Nat), i < rows * cols := by
      intro i hi; simp only [List.mem_singleton] at hi; subst hi; exact hn
    obtain ⟨hclosed, hstart⟩ := grow_closed adj (rows * cols) hadjlt (rows * cols) [0] h0nd h0lt
      (by simp only [List.length_singleton]; omega)
    obtain ⟨gnd, glt⟩ := grow_inv adj (fun i => i < rows * cols) (fun i hi j hj => hadjlt i hi j hj)
      (rows * cols) [0] h0nd h0lt
    generalize isSpanningMask.grow adj (rows * cols) [0] = r at *
    -- every cell reachable from cell 0 is in `r`
    have hcover : ∀ c, Reach (edgesOfMask rows cols m) (cellOf cols 0) c →
        ∃ i, i < rows * cols ∧ cellOf cols i = c ∧ i ∈ r := by
      intro c hrc
      induction hrc with
      | refl => exact ⟨0, hn, rfl, hstart 0 (by simp)⟩
      | @step b c _ hbc ih =>
        obtain ⟨i, hi, rfl, hir⟩ := ih
        obtain ⟨j, hj, rfl⟩ := inGrid_cellOf (Views.adj_inGrid hwf hbc).2
        refine ⟨j, hj, rfl, hclosed i hir j ?_⟩
        rw [← hadj]
        exact adj_complete hc hi hj hbc
    have hall : ∀ i, i < rows * cols → i ∈ r := by
      intro i hi
      obtain ⟨k, _, hk, hkr⟩ := hcover (cellOf cols i)
        (hreach _ _ (cellOf_inGrid hc hn) (cellOf_inGrid hc hi))
      rw [← cellOf_inj hk]; exact hkr
    have h1 := nodup_lt_length gnd glt
    have h2 := (List.subperm_of_subset (List.nodup_range (n := rows * cols)) (l₂ := r)
      (fun k hk => hall k (List.mem_range.mp hk))).length_le
    rw [List.length_range] at h2
    omega

/-! ### D. the brute-force table lists exactly the accepted masks -/

theorem mem_subsets_foldl : ∀ (L : List Nat) (acc : List Nat) (m : Nat),
    (∃ a ∈ acc, (∀ i, a.testBit i = true → m.testBit i = true) ∧
      (∀ i, m.testBit i = true → a.testBit i = true ∨ i ∈ L)) →
    m ∈ L.foldl (fun acc b => acc ++ acc.map (· ||| (1 <<< b))) acc
  | [], acc, m, ⟨a, ha, h1, h2⟩ => by
    have : m = a := by
      apply Nat.eq_of_testBit_eq
      intro i
      cases hm : m.testBit i
      · cases ha' : a.testBit i
        · rfl
        · rw [h1 i ha'] at hm; cases hm
      · rcases h2 i hm with h | h
        · exact h.symm
        · cases h
    subst this; exact ha
  | b :: L, acc, m, ⟨a, ha, h1, h2⟩ => by
    rw [List.foldl_cons]
    apply mem_subsets_foldl L
    cases hb : m.testBit b
    · refine ⟨a, List.mem_append_left _ ha, h1, ?_⟩
      intro i hi
      rcases h2 i hi with h | h
      · exact Or.inl h
      · rcases List.mem_cons.mp h with rfl | h
        · rw [hb] at hi; cases hi
        · exact Or.inr h
    · refine ⟨a ||| (1 <<< b), List.mem_append_right _ (List.mem_map.mpr ⟨a, ha, rfl⟩), ?_, ?_⟩
      · intro i hi
        rcases (bit_set a b i).mp hi with h | rfl
        · exact h1 i h
        · exact hb
      · intro i hi
        rcases h2 i hi with h | h
        · exact Or.inl ((bit_set a b i).mpr (Or.inl h))
        · rcases List.mem_cons.mp h with rfl | h
          · exact Or.inl ((bit_set a i i).mpr (Or.inr rfl))
          · exact Or.inr h

/-- `allSpanningMasks` is exactly the set of masks accepted by `isSpanningMask` -/
theorem mem_allSpanningMasks {rows cols T : Nat} :
    T ∈ allSpanningMasks rows cols ↔ isSpanningMask rows cols T = true := by
  simp only [allSpanningMasks, List.mem_filter]
  refine ⟨fun h => h.2, fun h => ⟨?_, h⟩⟩
  apply mem_subsets_foldl
  refine ⟨0, by simp, by intro i hi; simp at hi, ?_⟩
  intro i hi
  right
  simp only [isSpanningMask, Bool.and_eq_true, beq_iff_eq, decide_eq_true_eq, List.all_eq_true] at h
  obtain ⟨⟨⟨hlegal, hm⟩, _⟩, _⟩ := h
  have hilt : i < 2 * (rows * cols) := by
    cases Nat.lt_or_ge i (2 * (rows * cols)) with
    | inl h => exact h
    | inr h =>
      have : T < 2 ^ i := Nat.lt_of_lt_of_le hm (Nat.pow_le_pow_right (by omega) h)
      rw [Nat.testBit_lt_two_pow this] at hi; cases hi
  simp only [List.mem_filter, List.mem_range]
  exact ⟨hilt, hlegal i (by simp only [List.mem_filter, List.mem_range]; exact ⟨hilt, hi⟩)⟩

end MZ.WRef
