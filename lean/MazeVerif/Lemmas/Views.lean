import MazeVerif.Model.Views
import MazeVerif.Lemmas.DfsFinal
import MazeVerif.Lemmas.DfsMeta
import MazeVerif.Lemmas.GenTie
/-! Lemmas for the graph views (C13): each model function of `Model/Views.lean` against the semantic `Adj`. -/
namespace MZ.Views
open MZ

/-- every `True` entry lies inside the `[2, rows, cols]` array (weaker than `WF`: stray bits in the last row/col allowed) -/
def InArr (rows cols : Nat) (E : List Edge) : Prop :=
  ∀ e ∈ E, (e.1 = 0 ∨ e.1 = 1) ∧ inGrid rows cols (e.2.1, e.2.2)

theorem WF.inArr {rows cols E} (h : WF rows cols E) : InArr rows cols E := by
  intro e he
  obtain ⟨hd, h1, _⟩ := h e he
  refine ⟨hd, ?_⟩
  unfold ends at h1
  split at h1 <;> exact h1

theorem adj_right {E : List Edge} (i j : Int) : Adj E (i, j) (i, j + 1) ↔ (1, i, j) ∈ E := by
  unfold Adj
  constructor
  · rintro (⟨h, _⟩ | ⟨h, _⟩ | ⟨_, h⟩ | ⟨h, _⟩)
    · simp only [Prod.mk.injEq] at h; omega
    · simp only [Prod.mk.injEq] at h; omega
    · exact h
    · simp only [Prod.mk.injEq] at h; omega
  · intro h; exact Or.inr (Or.inr (Or.inl ⟨rfl, h⟩))

theorem adj_left {E : List Edge} (i j : Int) : Adj E (i, j) (i, j - 1) ↔ (1, i, j - 1) ∈ E := by
  unfold Adj
  constructor
  · rintro (⟨h, _⟩ | ⟨h, _⟩ | ⟨h, _⟩ | ⟨_, h⟩)
    · simp only [Prod.mk.injEq] at h; omega
    · simp only [Prod.mk.injEq] at h; omega
    · simp only [Prod.mk.injEq] at h; omega
    · exact h
  · intro h; exact Or.inr (Or.inr (Or.inr ⟨by simp, h⟩))

theorem adj_down {E : List Edge} (i j : Int) : Adj E (i, j) (i + 1, j) ↔ (0, i, j) ∈ E := by
  unfold Adj
  constructor
  · rintro (⟨_, h⟩ | ⟨h, _⟩ | ⟨h, _⟩ | ⟨h, _⟩)
    · exact h
    · simp only [Prod.mk.injEq] at h; omega
    · simp only [Prod.mk.injEq] at h; omega
    · simp only [Prod.mk.injEq] at h; omega
  · intro h; exact Or.inl ⟨rfl, h⟩

theorem adj_up {E : List Edge} (i j : Int) : Adj E (i, j) (i - 1, j) ↔ (0, i - 1, j) ∈ E := by
  unfold Adj
  constructor
  · rintro (⟨h, _⟩ | ⟨_, h⟩ | ⟨h, _⟩ | ⟨h, _⟩)
    · simp only [Prod.mk.injEq] at h; omega
    · exact h
    · simp only [Prod.mk.injEq] at h; omega
    · simp only [Prod.mk.injEq] at h; omega
  · intro h; exact Or.inr (Or.inl ⟨by simp, h⟩)

theorem adj_nbrs {E : List Edge} {a b : Cell} (h : Adj E a b) : b ∈ nbrs a := by
  obtain ⟨a1, a2⟩ := a
  obtain ⟨b1, b2⟩ := b
  simp only [nbrs, List.mem_cons, List.not_mem_nil, or_false, Prod.mk.injEq]
  rcases h with ⟨h, _⟩ | ⟨h, _⟩ | ⟨h, _⟩ | ⟨h, _⟩ <;> simp only [Prod.mk.injEq] at h <;> omega

theorem mem_nbrs_iff {a b : Cell} : b ∈ nbrs a ↔ (b.1 - a.1).natAbs + (b.2 - a.2).natAbs = 1 := by
  obtain ⟨a1, a2⟩ := a
  obtain ⟨b1, b2⟩ := b
  simp only [nbrs, List.mem_cons, List.not_mem_nil, or_false, Prod.mk.injEq]
  omega

instance {E : List Edge} {a b : Cell} : Decidable (Adj E a b) := by unfold Adj; exact inferInstance

theorem npIndex_in {n : Nat} {i : Int} (h0 : 0 ≤ i) (h1 : i < n) : npIndex n i = .ok i.toNat := by
  simp only [npIndex, h0, h1, and_self, if_true]

theorem npIndex_neg1 {n : Nat} (h : 1 ≤ n) : npIndex n (-1) = .ok (n - 1) := by
  have h1 : ¬ (0 ≤ (-1 : Int) ∧ (-1 : Int) < n) := by omega
  have h2 : (-(n:Int) ≤ -1 ∧ (-1 : Int) < 0) := by omega
  have h3 : (-1 + (n:Int)) = ((n - 1 : Nat) : Int) := by omega
  simp only [npIndex, h1, h2, if_true, if_false, h3, Int.toNat_natCast, and_self]

theorem lookup_in {m : Maze} {d : Nat} {i j : Int} (h : inGrid m.rows m.cols (i, j)) :
    lookup m d i j = .ok (decide ((d, i, j) ∈ m.E)) := by
  obtain ⟨h1, h2, h3, h4⟩ := h
  simp only [lookup, npIndex_in h1 h2, npIndex_in h3 h4, Int.toNat_of_nonneg h1, Int.toNat_of_nonneg h3]

/-- core of `nodes_connected`: for a lattice neighbour `b` of an in-grid `a`, provided `b` is in the grid or the maze is well-formed -/
theorem nodesConnected_nbr {m : Maze} {a b : Cell} (ha : inGrid m.rows m.cols a) (hb : b ∈ nbrs a)
    (h : inGrid m.rows m.cols b ∨ WF m.rows m.cols m.E) :
    nodesConnected m a b = .ok (decide (Adj m.E a b)) := by
  obtain ⟨a1, a2⟩ := a
  simp only [nbrs, List.mem_cons, List.not_mem_nil, or_false] at hb
  rcases hb with rfl | rfl | rfl | rfl
  · -- right
    have e1 : a1 - a1 = 0 := by omega
    have e2 : a2 + 1 - a2 = 1 := by omega
    simp only [nodesConnected, e1, e2]
    simp only [show ¬ ((0:Int).natAbs + (1:Int).natAbs ≠ 1) by decide, show ¬ ((0:Int).natAbs ≥ (1:Int).natAbs) by decide,
      show ((0:Int) + 1 > 0) by decide, if_true, if_false]
    rw [lookup_in ha, decide_eq_decide.mpr (adj_right a1 a2).symm]
  · -- left
    have e1 : a1 - a1 = 0 := by omega
    have e2 : a2 - 1 - a2 = -1 := by omega
    simp only [nodesConnected, e1, e2]
    simp only [show ¬ ((0:Int).natAbs + (-1:Int).natAbs ≠ 1) by decide, show ¬ ((0:Int).natAbs ≥ (-1:Int).natAbs) by decide,
      show ¬ ((0:Int) + -1 > 0) by decide, if_true, if_false]
    rw [decide_eq_decide.mpr (adj_left a1 a2)]
    by_cases hb : inGrid m.rows m.cols (a1, a2 - 1)
    · rw [lookup_in hb]
    · have hwf : WF m.rows m.cols m.E := h.resolve_left hb
      obtain ⟨h1, h2, h3, h4⟩ := ha
      simp only at h1 h2 h3 h4
      have h0 : a2 = 0 := by
        unfold inGrid at hb; simp only at hb; omega
      subst h0
      have hc : 1 ≤ m.cols := by omega
      simp only [lookup, npIndex_in h1 h2, Int.toNat_of_nonneg h1, show (0:Int) - 1 = -1 by decide, npIndex_neg1 hc]
      have n1 : (1, a1, (((m.cols - 1 : Nat)) : Int)) ∉ m.E := by
        intro hm
        obtain ⟨_, _, hh⟩ := hwf _ hm
        simp only [ends, inGrid] at hh
        simp at hh; omega
      have n2 : (1, a1, (-1 : Int)) ∉ m.E := by
        intro hm
        obtain ⟨_, hh, _⟩ := hwf _ hm
        simp only [ends, inGrid] at hh
        simp at hh
      simp only [n1, n2]
  · -- down
    have e1 : a1 + 1 - a1 = 1 := by omega
    have e2 : a2 - a2 = 0 := by omega
    simp only [nodesConnected, e1, e2]
    simp only [show ¬ ((1:Int).natAbs + (0:Int).natAbs ≠ 1) by decide, show ((1:Int).natAbs ≥ (0:Int).natAbs) by decide,
      show ((1:Int) + 0 > 0) by decide, if_true, if_false]
    rw [lookup_in ha, decide_eq_decide.mpr (adj_down a1 a2).symm]
  · -- up
    have e1 : a1 - 1 - a1 = -1 := by omega
    have e2 : a2 - a2 = 0 := by omega
    simp only [nodesConnected, e1, e2]
    simp only [show ¬ ((-1:Int).natAbs + (0:Int).natAbs ≠ 1) by decide, show ((-1:Int).natAbs ≥ (0:Int).natAbs) by decide,
      show ¬ ((-1:Int) + 0 > 0) by decide, if_true, if_false]
    rw [decide_eq_decide.mpr (adj_up a1 a2)]
    by_cases hb : inGrid m.rows m.cols (a1 - 1, a2)
    · rw [lookup_in hb]
    · have hwf : WF m.rows m.cols m.E := h.resolve_left hb
      obtain ⟨h1, h2, h3, h4⟩ := ha
      simp only at h1 h2 h3 h4
      have h0 : a1 = 0 := by
        unfold inGrid at hb; simp only at hb; omega
      subst h0
      have hc : 1 ≤ m.rows := by omega
      simp only [lookup, npIndex_in h3 h4, Int.toNat_of_nonneg h3, show (0:Int) - 1 = -1 by decide, npIndex_neg1 hc]
      have n1 : (0, (((m.rows - 1 : Nat)) : Int), a2) ∉ m.E := by
        intro hm
        obtain ⟨_, _, hh⟩ := hwf _ hm
        simp only [ends, inGrid] at hh
        simp at hh; omega
      have n2 : (0, (-1 : Int), a2) ∉ m.E := by
        intro hm
        obtain ⟨_, hh, _⟩ := hwf _ hm
        simp only [ends, inGrid] at hh
        simp at hh
      simp only [n1, n2]

theorem nodesConnected_not_nbr {m : Maze} {a b : Cell} (hb : b ∉ nbrs a) : nodesConnected m a b = .ok false := by
  rw [mem_nbrs_iff] at hb
  simp only [nodesConnected, ne_eq, hb, not_false_eq_true, if_true]

theorem nodesConnected_spec {m : Maze} {a b : Cell} (ha : inGrid m.rows m.cols a)
    (h : inGrid m.rows m.cols b ∨ WF m.rows m.cols m.E) :
    nodesConnected m a b = .ok (decide (Adj m.E a b)) := by
  by_cases hb : b ∈ nbrs a
  · exact nodesConnected_nbr ha hb h
  · rw [nodesConnected_not_nbr hb]
    have : ¬ Adj m.E a b := fun hadj => hb (adj_nbrs hadj)
    simp only [this, decide_false]

theorem filterE_ok {α} {p : α → Except Err Bool} {q : α → Bool} :
    ∀ {l : List α}, (∀ x ∈ l, p x = .ok (q x)) → filterE p l = .ok (l.filter q)
  | [], _ => rfl
  | x :: xs, h => by
    have hx := h x (List.mem_cons_self ..)
    have ih := filterE_ok (l := xs) (fun y hy => h y (List.mem_cons_of_mem _ hy))
    simp only [filterE, hx, ih, List.filter_cons]

theorem candidates_eq (c : Cell) : candidates c = nbrs c := (nbrs_eq_mask c).symm

/-- `get_coord_neighbors` of an in-grid cell: the candidates in mask order that are in the grid and adjacent -/
theorem getCoordNeighbors_spec {m : Maze} {c : Cell} (hc : inGrid m.rows m.cols c) :
    getCoordNeighbors m c = .ok ((nbrs c).filter fun n => decide (inGrid m.rows m.cols n) && decide (Adj m.E c n)) := by
  unfold getCoordNeighbors
  rw [candidates_eq]
  apply filterE_ok
  intro n _
  by_cases hn : inGrid m.rows m.cols n
  · simp only [hn, if_true, decide_true, Bool.true_and]
    exact nodesConnected_spec hc (Or.inl hn)
  · simp only [hn, if_false, decide_false, Bool.false_and]

theorem adj_iff_edgeOf {E : List Edge} {c n : Cell} (h : n ∈ nbrs c) : Adj E c n ↔ edgeOf c n ∈ E := by
  obtain ⟨c1, c2⟩ := c
  simp only [nbrs, List.mem_cons, List.not_mem_nil, or_false] at h
  rcases h with rfl | rfl | rfl | rfl
  · rw [edgeOf_right]; exact adj_right c1 c2
  · rw [edgeOf_left]; exact adj_left c1 c2
  · rw [edgeOf_down]; exact adj_down c1 c2
  · rw [edgeOf_up]; exact adj_up c1 c2

theorem adj_inGrid {rows cols E} (hwf : WF rows cols E) {a b : Cell} (h : Adj E a b) :
    inGrid rows cols a ∧ inGrid rows cols b := by
  obtain ⟨e, he, h1 | h1⟩ := adj_ends h
  · obtain ⟨_, h2, h3⟩ := hwf e he
    rw [h1] at h2 h3; exact ⟨h2, h3⟩
  · obtain ⟨_, h2, h3⟩ := hwf e he
    rw [h1] at h2 h3; exact ⟨h3, h2⟩

/-- consecutive cells of a path are `Adj`-connected -/
def AdjChain (E : List Edge) : List Cell → Prop
  | a :: b :: rest => Adj E a b ∧ AdjChain E (b :: rest)
  | _ => True

theorem allConnected_spec {m : Maze} : ∀ {p : List Cell}, (∀ c ∈ p, inGrid m.rows m.cols c) →
    ∃ r, allConnected m p = .ok r ∧ (r = true ↔ AdjChain m.E p)
  | [], _ => ⟨true, rfl, by simp [AdjChain]⟩
  | [_], _ => ⟨true, rfl, by simp [AdjChain]⟩
  | a :: b :: rest, h => by
    have ha := h a (by simp)
    have hb := h b (by simp)
    obtain ⟨r, hr, hiff⟩ := allConnected_spec (p := b :: rest) (fun c hc => h c (List.mem_cons_of_mem _ hc))
    have hnc := nodesConnected_spec (m := m) ha (Or.inl hb)
    by_cases hadj : Adj m.E a b
    · simp only [hadj, decide_true] at hnc
      refine ⟨r, ?_, ?_⟩
      · simp only [allConnected, hnc, hr]
      · simp only [AdjChain, hadj, true_and, hiff]
    · simp only [hadj, decide_false] at hnc
      refine ⟨false, ?_, ?_⟩
      · simp only [allConnected, hnc]
      · simp only [AdjChain, hadj, false_and]; decide

/-- `is_valid_path` never raises and answers True exactly for: empty with the flag set, or non-empty, inside the grid and
    `Adj`-connected step by step. No hypothesis on the connection structure. -/
theorem isValidPath_spec (m : Maze) (p : List Cell) (e : Bool) :
    ∃ r, isValidPath m p e = .ok r ∧
      (r = true ↔ (p = [] ∧ e = true) ∨ (p ≠ [] ∧ (∀ c ∈ p, inGrid m.rows m.cols c) ∧ AdjChain m.E p)) := by
  cases p with
  | nil => exact ⟨e, rfl, by simp⟩
  | cons a rest =>
    by_cases hin : ∀ c ∈ a :: rest, inGrid m.rows m.cols c
    · obtain ⟨r, hr, hiff⟩ := allConnected_spec (m := m) hin
      refine ⟨r, ?_, ?_⟩
      · have : (a :: rest).all (fun c => decide (inGrid m.rows m.cols c)) = true := by
          rw [List.all_eq_true]; intro c hc; exact decide_eq_true (hin c hc)
        simp only [isValidPath, List.isEmpty_cons, this, not_true_eq_false, if_false, hr]
        simp
      · simp only [hiff, reduceCtorEq, false_and, false_or, ne_eq, not_false_eq_true, true_and]
        exact ⟨fun h => ⟨hin, h⟩, fun h => h.2⟩
    · refine ⟨false, ?_, ?_⟩
      · have : ¬ ((a :: rest).all (fun c => decide (inGrid m.rows m.cols c)) = true) := by
          rw [List.all_eq_true]; intro h; exact hin (fun c hc => of_decide_eq_true (h c hc))
        simp only [isValidPath, List.isEmpty_cons, this, not_false_eq_true, if_true]
        simp
      · simp only [reduceCtorEq, false_and, false_or, ne_eq, not_false_eq_true, true_and, false_iff, not_and]
        exact fun h => absurd h hin

theorem filter4_length {α} (f : α → Bool) (a b c d : α) :
    ([a, b, c, d].filter f).length = (if f a then 1 else 0) + (if f b then 1 else 0) + (if f c then 1 else 0) + (if f d then 1 else 0) := by
  simp only [List.filter_cons, List.filter_nil]
  cases f a <;> cases f b <;> cases f c <;> cases f d <;> rfl

/-- `coord_degrees()[i,j]` (the shifted-sum formula) = number of `Adj`-neighbours among the four candidates -/
theorem degreeAt_spec {m : Maze} (h : InArr m.rows m.cols m.E) (i j : Nat) :
    degreeAt m i j = ((nbrs ((i : Int), (j : Int))).filter fun n => decide (Adj m.E ((i : Int), (j : Int)) n)).length := by
  have hl : (if 1 ≤ j then bit m 1 i (j - 1) else 0) = if (1, (i : Int), (j : Int) - 1) ∈ m.E then 1 else 0 := by
    by_cases hj : 1 ≤ j
    · have : (((j - 1 : Nat)) : Int) = (j : Int) - 1 := by omega
      simp only [hj, if_true, bit, this]
    · have hn : (1, (i : Int), (j : Int) - 1) ∉ m.E := by
        intro hm
        have := (h _ hm).2
        simp only [inGrid] at this; omega
      simp only [hj, if_false, hn]
  have hu : (if 1 ≤ i then bit m 0 (i - 1) j else 0) = if (0, (i : Int) - 1, (j : Int)) ∈ m.E then 1 else 0 := by
    by_cases hi : 1 ≤ i
    · have : (((i - 1 : Nat)) : Int) = (i : Int) - 1 := by omega
      simp only [hi, if_true, bit, this]
    · have hn : (0, (i : Int) - 1, (j : Int)) ∉ m.E := by
        intro hm
        have := (h _ hm).2
        simp only [inGrid] at this; omega
      simp only [hi, if_false, hn]
  rw [degreeAt, hl, hu]
  simp only [nbrs, filter4_length, bit, decide_eq_true_eq, adj_right, adj_left, adj_down, adj_up]
  omega

theorem coordDegrees_get {m : Maze} {i j : Nat} (hi : i < m.rows) (hj : j < m.cols) :
    ((coordDegrees m)[i]?.bind (·[j]?)) = some (degreeAt m i j) := by
  simp [coordDegrees, hi, hj]

theorem zip_replicate_left {α β} (a : α) : ∀ (l : List β), (List.replicate l.length a).zip l = l.map fun b => (a, b)
  | [] => rfl
  | b :: bs => by simp [List.replicate_succ, zip_replicate_left a bs]

/-- `get_nodes()` is the row-major list of all cells -/
theorem getNodes_eq_cells (m : Maze) : getNodes m = cells m.rows m.cols := by
  unfold getNodes cells
  generalize List.range m.rows = is
  induction is with
  | nil => rfl
  | cons i is ih =>
    simp only [List.flatMap_cons]
    rw [List.zip_append (by simp), ih]
    congr 1
    have := zip_replicate_left (i : Int) ((List.range m.cols).map fun (j : Nat) => (j : Int))
    simp only [List.length_map, List.length_range] at this
    rw [this, List.map_map]
    rfl

theorem mem_ndindex {rows cols : Nat} {e : Edge} : e ∈ ndindex rows cols ↔ e.1 < 2 ∧ inGrid rows cols (e.2.1, e.2.2) := by
  obtain ⟨d, i, j⟩ := e
  simp only [ndindex, List.mem_flatMap, List.mem_range, List.mem_map, Prod.mk.injEq, inGrid]
  constructor
  · rintro ⟨d', hd, i', hi, j', hj, rfl, rfl, rfl⟩; omega
  · rintro ⟨h0, h1, h2, h3, h4⟩
    exact ⟨d, h0, i.toNat, by omega, j.toNat, by omega, rfl, by omega, by omega⟩

theorem ndindex_nodup (rows cols : Nat) : (ndindex rows cols).Nodup := by
  unfold ndindex
  rw [List.nodup_flatMap]
  refine ⟨fun d _ => ?_, ?_⟩
  · rw [List.nodup_flatMap]
    refine ⟨fun i _ => List.Nodup.map (fun a b h => by simp at h; omega) List.nodup_range, ?_⟩
    refine List.Pairwise.imp_of_mem ?_ (List.nodup_range (n := rows))
    intro i j _ _ hij
    simp only [Function.onFun, List.disjoint_left, List.mem_map, List.mem_range]
    rintro c ⟨a, _, rfl⟩ ⟨b, _, hb⟩
    simp at hb; omega
  · refine List.Pairwise.imp_of_mem ?_ (List.nodup_range (n := 2))
    intro d d' _ _ hdd
    simp only [Function.onFun, List.disjoint_left, List.mem_flatMap, List.mem_map, List.mem_range]
    rintro c ⟨i, _, j, _, rfl⟩ ⟨i', _, j', _, hb⟩
    simp at hb; omega

theorem mem_trueEntries {m : Maze} (h : InArr m.rows m.cols m.E) {e : Edge} : e ∈ trueEntries m ↔ e ∈ m.E := by
  simp only [trueEntries, List.mem_filter, decide_eq_true_eq, mem_ndindex]
  constructor
  · exact fun h => h.2
  · intro he
    obtain ⟨hd, hg⟩ := h e he
    exact ⟨⟨by omega, hg⟩, he⟩

theorem trueEntries_nodup (m : Maze) : (trueEntries m).Nodup := (ndindex_nodup _ _).sublist List.filter_sublist

theorem trueEntries_dim {m : Maze} {e : Edge} (h : e ∈ trueEntries m) : e.1 = 0 ∨ e.1 = 1 := by
  have := (mem_ndindex.1 (List.mem_filter.1 h).1).1
  omega

/-- orientation weight of a pair: `+1` for (smaller, larger), `-1` for the flipped pair -/
def weight (p : Cell × Cell) : Int := p.2.1 + p.2.2 - p.1.1 - p.1.2

theorem weight_pairOf {e : Edge} (h : e.1 = 0 ∨ e.1 = 1) : weight (pairOf e) = 1 := by
  obtain ⟨d, i, j⟩ := e
  rcases h with h | h <;> simp only at h <;> subst h <;> simp [weight, pairOf] <;> omega

theorem pairOf_inj {e e' : Edge} (h : e.1 = 0 ∨ e.1 = 1) (h' : e'.1 = 0 ∨ e'.1 = 1) (heq : pairOf e = pairOf e') : e = e' := by
  obtain ⟨d, i, j⟩ := e
  obtain ⟨d', i', j'⟩ := e'
  simp only at h h'
  rcases h with rfl | rfl <;> rcases h' with rfl | rfl <;> simp [pairOf] at heq ⊢ <;> omega

theorem pairOf_eq_ends {e : Edge} (h : e.1 = 0 ∨ e.1 = 1) : pairOf e = ends e := by
  obtain ⟨d, i, j⟩ := e
  simp only at h
  rcases h with rfl | rfl <;> simp [pairOf, ends]

theorem adj_of_pairOf {E : List Edge} {e : Edge} (he : e ∈ E) (h : e.1 = 0 ∨ e.1 = 1) : Adj E (pairOf e).1 (pairOf e).2 := by
  obtain ⟨d, i, j⟩ := e
  simp only at h
  rcases h with rfl | rfl
  · simp only [pairOf]; simpa using (adj_down i j).2 he
  · simp only [pairOf]; simpa using (adj_right i j).2 he

theorem adj_iff_pairOf {rows cols : Nat} {E : List Edge} (h : InArr rows cols E) {a b : Cell} :
    Adj E a b ↔ ∃ e ∈ E, pairOf e = (a, b) ∨ pairOf e = (b, a) := by
  constructor
  · intro hadj
    obtain ⟨e, he, h1⟩ := adj_ends hadj
    exact ⟨e, he, by rw [pairOf_eq_ends (h e he).1]; exact h1⟩
  · rintro ⟨e, he, h1 | h1⟩
    · have := adj_of_pairOf he (h e he).1
      rw [h1] at this; exact this
    · have := adj_of_pairOf he (h e he).1
      rw [h1] at this; exact this.symm

theorem adj_irrefl {E : List Edge} {a : Cell} : ¬ Adj E a a := by
  intro h
  have := mem_nbrs_iff.1 (adj_nbrs h)
  simp at this

theorem mem_applyFlips {p : Cell × Cell} : ∀ {ps : List (Cell × Cell)} {fs : List Bool},
    p ∈ applyFlips ps fs → p ∈ ps ∨ (p.2, p.1) ∈ ps
  | [], _, h => by simp [applyFlips] at h
  | q :: qs, [], h => Or.inl (by simpa [applyFlips] using h)
  | q :: qs, f :: fs, h => by
    simp only [applyFlips, List.mem_cons] at h
    rcases h with h | h
    · cases f
      · simp only [Bool.false_eq_true, if_false] at h; subst h; exact Or.inl (by simp)
      · simp only [if_true] at h; subst h; exact Or.inr (by simp)
    · rcases mem_applyFlips h with h1 | h1
      · exact Or.inl (List.mem_cons_of_mem _ h1)
      · exact Or.inr (List.mem_cons_of_mem _ h1)

/-- flipping pairs does not change how often an unordered pair occurs -/
theorem count_applyFlips (a b : Cell) (hab : a ≠ b) : ∀ (ps : List (Cell × Cell)) (fs : List Bool),
    (applyFlips ps fs).count (a, b) + (applyFlips ps fs).count (b, a) = ps.count (a, b) + ps.count (b, a)
  | [], _ => by simp [applyFlips]
  | q :: qs, [] => by simp [applyFlips]
  | (q1, q2) :: qs, f :: fs => by
    have ih := count_applyFlips a b hab qs fs
    cases f
    · simp only [applyFlips, Bool.false_eq_true, if_false, List.count_cons]
      omega
    · simp only [applyFlips, if_true, List.count_cons, beq_iff_eq, Prod.mk.injEq]
      have e1 : (q2 = a ∧ q1 = b) ↔ (q1 = b ∧ q2 = a) := And.comm
      have e2 : (q2 = b ∧ q1 = a) ↔ (q1 = a ∧ q2 = b) := And.comm
      simp only [e1, e2]
      omega

theorem canonical_nodup (m : Maze) : ((trueEntries m).map pairOf).Nodup := by
  refine List.Nodup.map_on ?_ (trueEntries_nodup m)
  intro e he e' he' heq
  exact pairOf_inj (trueEntries_dim he) (trueEntries_dim he') heq

theorem mem_canonical {m : Maze} (h : InArr m.rows m.cols m.E) {p : Cell × Cell} :
    p ∈ (trueEntries m).map pairOf ↔ ∃ e ∈ m.E, pairOf e = p := by
  simp only [List.mem_map, mem_trueEntries h]

theorem canonical_count {m : Maze} (h : InArr m.rows m.cols m.E) {a b : Cell} (hadj : Adj m.E a b) :
    ((trueEntries m).map pairOf).count (a, b) + ((trueEntries m).map pairOf).count (b, a) = 1 := by
  have hnd := canonical_nodup m
  rw [hnd.count, hnd.count]
  obtain ⟨e, he, h1⟩ := (adj_iff_pairOf h).1 hadj
  have hw := weight_pairOf (h e he).1
  have nob : ∀ {x y : Cell}, (x, y) ∈ (trueEntries m).map pairOf → (y, x) ∉ (trueEntries m).map pairOf := by
    intro x y hx hy
    obtain ⟨e1, he1, h1⟩ := (mem_canonical h).1 hx
    obtain ⟨e2, he2, h2⟩ := (mem_canonical h).1 hy
    have w1 := weight_pairOf (h e1 he1).1
    have w2 := weight_pairOf (h e2 he2).1
    rw [h1] at w1; rw [h2] at w2
    simp only [weight] at w1 w2; omega
  rcases h1 with h1 | h1
  · have hm : (a, b) ∈ (trueEntries m).map pairOf := (mem_canonical h).2 ⟨e, he, h1⟩
    simp only [hm, nob hm, if_true, if_false]
  · have hm : (b, a) ∈ (trueEntries m).map pairOf := (mem_canonical h).2 ⟨e, he, h1⟩
    simp only [hm, nob hm, if_true, if_false]

/-- `as_adj_list` (any flips, any final shuffle): every listed pair is a connection, and every connection is listed exactly once,
    in exactly one of the two orientations -/
theorem asAdjList_spec {m : Maze} (h : InArr m.rows m.cols m.E) (flips : List Bool) {out : List (Cell × Cell)}
    (hperm : out.Perm (asAdjList m flips)) :
    (∀ p ∈ out, Adj m.E p.1 p.2) ∧ (∀ a b, Adj m.E a b → out.count (a, b) + out.count (b, a) = 1) := by
  constructor
  · intro p hp
    have hp' := mem_applyFlips (hperm.subset hp)
    rcases hp' with h1 | h1
    · obtain ⟨e, he, h2⟩ := (mem_canonical h).1 h1
      exact (adj_iff_pairOf h).2 ⟨e, he, Or.inl h2⟩
    · obtain ⟨e, he, h2⟩ := (mem_canonical h).1 h1
      exact (adj_iff_pairOf h).2 ⟨e, he, Or.inr h2⟩
  · intro a b hadj
    have hab : a ≠ b := fun hh => adj_irrefl (hh ▸ hadj)
    rw [hperm.count_eq, hperm.count_eq]
    unfold asAdjList
    rw [count_applyFlips a b hab]
    exact canonical_count h hadj

/-- unshuffled: the canonical list (entries in `ndindex` order), smaller coordinate first -/
theorem asAdjList_unshuffled (m : Maze) : asAdjList m [] = (trueEntries m).map pairOf := by
  unfold asAdjList
  cases (trueEntries m).map pairOf <;> rfl

theorem canonical_oriented {m : Maze} {p : Cell × Cell} (hp : p ∈ (trueEntries m).map pairOf) :
    (p.2 = (p.1.1 + 1, p.1.2) ∨ p.2 = (p.1.1, p.1.2 + 1)) := by
  obtain ⟨e, he, rfl⟩ := List.mem_map.1 hp
  obtain ⟨d, i, j⟩ := e
  rcases trueEntries_dim he with h | h <;> simp only at h <;> subst h <;> simp [pairOf]

theorem foldl_max_spec : ∀ (xs : List Int) (x : Int),
    x ≤ xs.foldl max x ∧ (∀ y ∈ xs, y ≤ xs.foldl max x) ∧ (xs.foldl max x = x ∨ xs.foldl max x ∈ xs)
  | [], x => by simp
  | y :: ys, x => by
    obtain ⟨h1, h2, h3⟩ := foldl_max_spec ys (max x y)
    simp only [List.foldl_cons, List.mem_cons]
    refine ⟨by omega, ?_, ?_⟩
    · rintro z (rfl | hz)
      · omega
      · exact h2 z hz
    · rcases h3 with h3 | h3
      · rw [h3]
        rcases Int.le_total x y with h | h
        · right; left; omega
        · left; omega
      · exact Or.inr (Or.inr h3)

theorem maxL_spec {l : List Int} {mx : Int} (hle : ∀ y ∈ l, y ≤ mx) (hmem : mx ∈ l) : maxL l = some mx := by
  cases l with
  | nil => simp at hmem
  | cons x xs =>
    obtain ⟨h1, h2, h3⟩ := foldl_max_spec xs x
    simp only [maxL, Option.some.injEq]
    have hr : xs.foldl max x ≤ mx := by
      rcases h3 with h3 | h3
      · rw [h3]; exact hle x (by simp)
      · exact hle _ (List.mem_cons_of_mem _ h3)
    have : mx ≤ xs.foldl max x := by
      rcases List.mem_cons.1 hmem with rfl | h
      · exact h1
      · exact h2 mx h
    omega

theorem mem_coordsOf {adj : List (Cell × Cell)} {x : Int} :
    x ∈ coordsOf adj ↔ ∃ p ∈ adj, x = p.1.1 ∨ x = p.1.2 ∨ x = p.2.1 ∨ x = p.2.2 := by
  simp [coordsOf, List.mem_flatMap]

theorem mapE_rel {α β} {f : α → Except Err β} {R : α → β → Prop} : ∀ {l : List α},
    (∀ x ∈ l, ∃ y, f x = .ok y ∧ R x y) →
    ∃ r, mapE f l = .ok r ∧ (∀ y ∈ r, ∃ x ∈ l, R x y) ∧ (∀ x ∈ l, ∃ y ∈ r, R x y)
  | [], _ => ⟨[], rfl, by simp, by simp⟩
  | x :: xs, h => by
    obtain ⟨y, hy, hR⟩ := h x (by simp)
    obtain ⟨r, hr, h1, h2⟩ := mapE_rel (l := xs) (fun z hz => h z (List.mem_cons_of_mem _ hz))
    refine ⟨y :: r, by simp only [mapE, hy, hr], ?_, ?_⟩
    · intro y' hy'
      rcases List.mem_cons.1 hy' with rfl | hy'
      · exact ⟨x, by simp, hR⟩
      · obtain ⟨x', hx', hR'⟩ := h1 y' hy'
        exact ⟨x', List.mem_cons_of_mem _ hx', hR'⟩
    · intro x' hx'
      rcases List.mem_cons.1 hx' with rfl | hx'
      · exact ⟨y, by simp, hR⟩
      · obtain ⟨y', hy', hR'⟩ := h2 x' hx'
        exact ⟨y', List.mem_cons_of_mem _ hy', hR'⟩

theorem mem_applyFlips' {q : Cell × Cell} : ∀ {ps : List (Cell × Cell)} {fs : List Bool},
    q ∈ ps → q ∈ applyFlips ps fs ∨ (q.2, q.1) ∈ applyFlips ps fs
  | [], _, h => by simp at h
  | p :: ps, [], h => Or.inl (by simpa [applyFlips] using h)
  | p :: ps, f :: fs, h => by
    rcases List.mem_cons.1 h with rfl | h
    · cases f
      · left; simp [applyFlips]
      · right; simp [applyFlips]
    · rcases mem_applyFlips' (fs := fs) h with h1 | h1
      · left; simp only [applyFlips]; exact List.mem_cons_of_mem _ h1
      · right; simp only [applyFlips]; exact List.mem_cons_of_mem _ h1

/-- one loop body of `from_adj_list` recovers the stored entry from either orientation of its pair -/
theorem entryOf_pairOf {n : Nat} {e : Edge} (hd : e.1 = 0 ∨ e.1 = 1) (hg : inGrid n n (e.2.1, e.2.2)) :
    entryOf n (pairOf e) = .ok e ∧ entryOf n ((pairOf e).2, (pairOf e).1) = .ok e := by
  obtain ⟨d, i, j⟩ := e
  obtain ⟨h1, h2, h3, h4⟩ := hg
  simp only at hd h1 h2 h3 h4
  have ei := npIndex_in h1 h2
  have ej := npIndex_in h3 h4
  have ti := Int.toNat_of_nonneg h1
  have tj := Int.toNat_of_nonneg h3
  rcases hd with rfl | rfl
  · have a1 : ¬ (i = i + 1) := by omega
    have a2 : ¬ (i + 1 = i) := by omega
    have a3 : i < i + 1 := by omega
    have a4 : ¬ (i + 1 < i) := by omega
    constructor <;>
      simp [entryOf, pairOf, a1, a2, a3, a4, ei, ej, ti, tj]
  · have a1 : ¬ (j = j + 1) := by omega
    have a2 : ¬ (j + 1 = j) := by omega
    have a3 : j < j + 1 := by omega
    have a4 : ¬ (j + 1 < j) := by omega
    constructor <;>
      simp [entryOf, pairOf, a1, a2, a3, a4, ei, ej, ti, tj]

/-- the highest index `n-1` occurs as a coordinate of some connection -/
def MaxIndexOccurs (n : Nat) (E : List Edge) : Prop :=
  ∃ e ∈ E, (pairOf e).2.1 = (n : Int) - 1 ∨ (pairOf e).2.2 = (n : Int) - 1

/-- `from_adj_list (as_adj_list m)` rebuilds the same connection structure (same size, same set of True entries) for a square,
    well-formed maze whose highest index occurs in some connection — for every flip vector and every shuffle -/
theorem fromAdjList_spec {n : Nat} {E : List Edge} (hwf : WF n n E) (hmax : MaxIndexOccurs n E) (flips : List Bool)
    {out : List (Cell × Cell)} (hperm : out.Perm (asAdjList ⟨n, n, E⟩ flips)) :
    ∃ m', fromAdjList out = .ok m' ∧ m'.rows = n ∧ m'.cols = n ∧ ∀ e, e ∈ m'.E ↔ e ∈ E := by
  have hin : InArr n n E := WF.inArr hwf
  -- every listed pair is an orientation of the pair of a stored entry, and conversely
  have h1 : ∀ p ∈ out, ∃ e ∈ E, p = pairOf e ∨ p = ((pairOf e).2, (pairOf e).1) := by
    intro p hp
    rcases mem_applyFlips (hperm.subset hp) with h | h
    · obtain ⟨e, he, h2⟩ := (mem_canonical (m := ⟨n, n, E⟩) hin).1 h
      exact ⟨e, he, Or.inl h2.symm⟩
    · obtain ⟨e, he, h2⟩ := (mem_canonical (m := ⟨n, n, E⟩) hin).1 h
      exact ⟨e, he, Or.inr (by rw [h2])⟩
  have h2 : ∀ e ∈ E, ∃ p ∈ out, p = pairOf e ∨ p = ((pairOf e).2, (pairOf e).1) := by
    intro e he
    have hm : pairOf e ∈ (trueEntries ⟨n, n, E⟩).map pairOf := (mem_canonical (m := ⟨n, n, E⟩) hin).2 ⟨e, he, rfl⟩
    rcases mem_applyFlips' (fs := flips) hm with h | h
    · exact ⟨_, hperm.symm.subset h, Or.inl rfl⟩
    · exact ⟨_, hperm.symm.subset h, Or.inr rfl⟩
  -- the inferred size
  have hends : ∀ e ∈ E, inGrid n n (pairOf e).1 ∧ inGrid n n (pairOf e).2 := by
    intro e he
    obtain ⟨hd, ha, hb⟩ := hwf e he
    rw [pairOf_eq_ends hd]; exact ⟨ha, hb⟩
  have hmx : maxL (coordsOf out) = some ((n : Int) - 1) := by
    apply maxL_spec
    · intro y hy
      obtain ⟨p, hp, hy⟩ := mem_coordsOf.1 hy
      obtain ⟨e, he, hpe⟩ := h1 p hp
      obtain ⟨⟨_, a2, _, a4⟩, ⟨_, b2, _, b4⟩⟩ := hends e he
      rcases hpe with rfl | rfl <;> rcases hy with rfl | rfl | rfl | rfl <;> (try dsimp only) <;> omega
    · obtain ⟨e, he, hm⟩ := hmax
      obtain ⟨p, hp, hpe⟩ := h2 e he
      refine mem_coordsOf.2 ⟨p, hp, ?_⟩
      rcases hpe with rfl | rfl <;> rcases hm with hm | hm <;> simp [hm]
  have hn0 : ¬ ((n : Int) - 1 + 1 < 0) := by omega
  have hn1 : ((n : Int) - 1 + 1).toNat = n := by omega
  obtain ⟨r, hr, r1, r2⟩ := mapE_rel (f := entryOf n) (l := out)
    (R := fun p e => e ∈ E ∧ (p = pairOf e ∨ p = ((pairOf e).2, (pairOf e).1))) (by
      intro p hp
      obtain ⟨e, he, hpe⟩ := h1 p hp
      obtain ⟨hd, hg⟩ := hin e he
      obtain ⟨e1, e2⟩ := entryOf_pairOf hd hg
      rcases hpe with rfl | rfl
      · exact ⟨e, e1, he, Or.inl rfl⟩
      · exact ⟨e, e2, he, Or.inr rfl⟩)
  refine ⟨⟨n, n, r⟩, ?_, rfl, rfl, ?_⟩
  · simp only [fromAdjList, hmx, hn0, if_false, hn1, hr]
  · intro e
    constructor
    · intro he
      obtain ⟨_, _, h, _⟩ := r1 e he
      exact h
    · intro he
      obtain ⟨p, hp, hpe⟩ := h2 e he
      obtain ⟨e', he', hE', hpe'⟩ := r2 p hp
      have hd := (hin e he).1
      have hd' := (hin e' hE').1
      have : e' = e := by
        rcases hpe with h | h <;> rcases hpe' with h' | h'
        · exact pairOf_inj hd' hd (by rw [← h', h])
        · have w1 := weight_pairOf hd; have w2 := weight_pairOf hd'
          rw [h] at h'; rw [h'] at w1; simp only [weight] at w1 w2; omega
        · have w1 := weight_pairOf hd; have w2 := weight_pairOf hd'
          rw [h'] at h; rw [h] at w2; simp only [weight] at w1 w2; omega
        · have : pairOf e' = pairOf e := by
            rw [h] at h'
            have := congrArg (fun q : Cell × Cell => (q.2, q.1)) h'
            exact this.symm
          exact pairOf_inj hd' hd this
      exact this ▸ he'

theorem mapE_ok {α β} {f : α → Except Err β} {g : α → β} : ∀ {l : List α}, (∀ x ∈ l, f x = .ok (g x)) → mapE f l = .ok (l.map g)
  | [], _ => rfl
  | x :: xs, h => by
    have hx := h x (List.mem_cons_self ..)
    have ih := mapE_ok (l := xs) (fun y hy => h y (List.mem_cons_of_mem _ hy))
    simp only [mapE, hx, ih, List.map_cons]

/-- `is_connection` on one lattice edge (either orientation) inside the grid -/
theorem isConnection1_spec {m : Maze} {a b : Cell} (ha : inGrid m.rows m.cols a) (hb : inGrid m.rows m.cols b) (hn : b ∈ nbrs a) :
    isConnection1 m (a, b) = .ok (decide (Adj m.E a b)) := by
  obtain ⟨a1, a2⟩ := a
  simp only [nbrs, List.mem_cons, List.not_mem_nil, or_false] at hn
  rcases hn with rfl | rfl | rfl | rfl
  · have e1 : min a1 a1 = a1 := by omega
    have e2 : max a1 a1 = a1 := by omega
    have e3 : min a2 (a2 + 1) = a2 := by omega
    have e4 : a1 - a1 = 0 := by omega
    simp only [isConnection1, e1, e2, e3, e4, if_true]
    rw [lookup_in ha, decide_eq_decide.mpr (adj_right a1 a2).symm]
  · have e1 : min a1 a1 = a1 := by omega
    have e2 : max a1 a1 = a1 := by omega
    have e3 : min a2 (a2 - 1) = a2 - 1 := by omega
    have e4 : a1 - a1 = 0 := by omega
    simp only [isConnection1, e1, e2, e3, e4, if_true]
    rw [lookup_in hb, decide_eq_decide.mpr (adj_left a1 a2)]
  · have e1 : min a1 (a1 + 1) = a1 := by omega
    have e2 : max a1 (a1 + 1) = a1 + 1 := by omega
    have e3 : min a2 a2 = a2 := by omega
    have e4 : ¬ (a1 + 1 - a1 = 0) := by omega
    simp only [isConnection1, e1, e2, e3, e4, if_false]
    rw [lookup_in ha, decide_eq_decide.mpr (adj_down a1 a2).symm]
  · have e1 : min a1 (a1 - 1) = a1 - 1 := by omega
    have e2 : max a1 (a1 - 1) = a1 := by omega
    have e3 : min a2 a2 = a2 := by omega
    have e4 : ¬ (a1 - (a1 - 1) = 0) := by omega
    simp only [isConnection1, e1, e2, e3, e4, if_false]
    rw [lookup_in hb, decide_eq_decide.mpr (adj_up a1 a2)]

theorem isConnection_spec {m : Maze} {edges : List (Cell × Cell)}
    (h : ∀ p ∈ edges, inGrid m.rows m.cols p.1 ∧ inGrid m.rows m.cols p.2 ∧ p.2 ∈ nbrs p.1) :
    isConnection m edges = .ok (edges.map fun p => decide (Adj m.E p.1 p.2)) := by
  apply mapE_ok
  intro p hp
  obtain ⟨h1, h2, h3⟩ := h p hp
  exact isConnection1_spec h1 h2 h3

theorem manhattan_eq_one {a b : Cell} : manhattan a b = 1 ↔ b ∈ nbrs a := by
  rw [mem_nbrs_iff]; unfold manhattan; omega

theorem manhattan_eq_zero {a b : Cell} : manhattan a b = 0 ↔ a = b := by
  obtain ⟨a1, a2⟩ := a
  obtain ⟨b1, b2⟩ := b
  simp only [manhattan, Prod.mk.injEq]; omega

theorem manhattan_comm (a b : Cell) : manhattan a b = manhattan b a := by unfold manhattan; omega

theorem manhattan_triangle (a b c : Cell) : manhattan a c ≤ manhattan a b + manhattan b c := by unfold manhattan; omega

/-- number of in-grid lattice neighbours -/
def gridNbrCount (n : Nat) (c : Cell) : Nat := ((nbrs c).filter fun x => decide (inGrid n n x)).length

theorem maxDegreeAt_ge {n i j : Nat} (hi : i < n) (hj : j < n) : gridNbrCount n ((i : Int), (j : Int)) ≤ maxDegreeAt n i j := by
  simp only [gridNbrCount, nbrs, filter4_length, maxDegreeAt, decide_eq_true_eq]
  simp only [inGrid]
  have p1 : (0 ≤ (i : Int) ∧ (i : Int) < n ∧ 0 ≤ (j : Int) + 1 ∧ (j : Int) + 1 < n) ↔ j + 1 < n := by omega
  have p2 : (0 ≤ (i : Int) ∧ (i : Int) < n ∧ 0 ≤ (j : Int) - 1 ∧ (j : Int) - 1 < n) ↔ 1 ≤ j := by omega
  have p3 : (0 ≤ (i : Int) + 1 ∧ (i : Int) + 1 < n ∧ 0 ≤ (j : Int) ∧ (j : Int) < n) ↔ i + 1 < n := by omega
  have p4 : (0 ≤ (i : Int) - 1 ∧ (i : Int) - 1 < n ∧ 0 ≤ (j : Int) ∧ (j : Int) < n) ↔ 1 ≤ i := by omega
  simp only [p1, p2, p3, p4]
  by_cases c1 : 1 ≤ i <;> by_cases c2 : i + 1 < n <;> by_cases c3 : 1 ≤ j <;> by_cases c4 : j + 1 < n <;>
    simp only [c1, c2, c3, c4, if_true, if_false, and_self, and_true, and_false, true_and, false_and] <;> omega

theorem maxDegreeAt_spec {n i j : Nat} (hn : 2 ≤ n) (hi : i < n) (hj : j < n) :
    maxDegreeAt n i j = gridNbrCount n ((i : Int), (j : Int)) := by
  simp only [gridNbrCount, nbrs, filter4_length, maxDegreeAt, decide_eq_true_eq]
  simp only [inGrid]
  have p1 : (0 ≤ (i : Int) ∧ (i : Int) < n ∧ 0 ≤ (j : Int) + 1 ∧ (j : Int) + 1 < n) ↔ j + 1 < n := by omega
  have p2 : (0 ≤ (i : Int) ∧ (i : Int) < n ∧ 0 ≤ (j : Int) - 1 ∧ (j : Int) - 1 < n) ↔ 1 ≤ j := by omega
  have p3 : (0 ≤ (i : Int) + 1 ∧ (i : Int) + 1 < n ∧ 0 ≤ (j : Int) ∧ (j : Int) < n) ↔ i + 1 < n := by omega
  have p4 : (0 ≤ (i : Int) - 1 ∧ (i : Int) - 1 < n ∧ 0 ≤ (j : Int) ∧ (j : Int) < n) ↔ 1 ≤ i := by omega
  simp only [p1, p2, p3, p4]
  by_cases c1 : 1 ≤ i <;> by_cases c2 : i + 1 < n <;> by_cases c3 : 1 ≤ j <;> by_cases c4 : j + 1 < n <;>
    simp only [c1, c2, c3, c4, if_true, if_false, and_self, and_true, and_false, true_and, false_and] <;> omega

theorem degreeAt_le_grid {n : Nat} {E : List Edge} (hwf : WF n n E) (i j : Nat) :
    degreeAt ⟨n, n, E⟩ i j ≤ gridNbrCount n ((i : Int), (j : Int)) := by
  rw [degreeAt_spec (m := ⟨n, n, E⟩) (WF.inArr hwf)]
  have key : ∀ x, Adj E ((i : Int), (j : Int)) x → inGrid n n x := fun x h => (adj_inGrid hwf h).2
  simp only [gridNbrCount, nbrs, filter4_length, decide_eq_true_eq]
  have k1 := key ((i : Int), (j : Int) + 1)
  have k2 := key ((i : Int), (j : Int) - 1)
  have k3 := key ((i : Int) + 1, (j : Int))
  have k4 := key ((i : Int) - 1, (j : Int))
  repeat' split
  all_goals first | omega | (exfalso; simp_all)

theorem mem_latticeConnectionArray {n : Nat} {a b : Cell} :
    (a, b) ∈ latticeConnectionArray n ↔
      inGrid n n a ∧ inGrid n n b ∧ (b = (a.1, a.2 + 1) ∨ b = (a.1 + 1, a.2)) := by
  obtain ⟨a1, a2⟩ := a
  obtain ⟨b1, b2⟩ := b
  simp only [latticeConnectionArray, List.mem_append, List.mem_flatMap, List.mem_range, List.mem_map, Prod.mk.injEq, inGrid]
  constructor
  · rintro (⟨i, hi, j, hj, ⟨rfl, rfl⟩, rfl, rfl⟩ | ⟨i, hi, j, hj, ⟨rfl, rfl⟩, rfl, rfl⟩) <;> omega
  · rintro ⟨⟨h1, h2, h3, h4⟩, ⟨h5, h6, h7, h8⟩, (⟨hb1, hb2⟩ | ⟨hb1, hb2⟩)⟩
    · exact Or.inl ⟨a1.toNat, by omega, a2.toNat, by omega, ⟨by omega, by omega⟩, by omega, by omega⟩
    · exact Or.inr ⟨a1.toNat, by omega, a2.toNat, by omega, ⟨by omega, by omega⟩, by omega, by omega⟩

theorem length_latticeConnectionArray (n : Nat) : (latticeConnectionArray n).length = 2 * (n * (n - 1)) := by
  simp only [latticeConnectionArray, List.length_append, List.length_flatMap, List.length_map, List.length_range,
    List.map_const', List.sum_replicate_nat]
  rw [Nat.mul_comm (n - 1) n]; omega

theorem latticeConnectionArray_nodup (n : Nat) : (latticeConnectionArray n).Nodup := by
  unfold latticeConnectionArray
  refine List.Nodup.append ?_ ?_ ?_
  · rw [List.nodup_flatMap]
    refine ⟨fun i _ => List.Nodup.map (fun a b h => by simp at h; omega) List.nodup_range, ?_⟩
    refine List.Pairwise.imp_of_mem ?_ (List.nodup_range (n := n))
    intro i j _ _ hij
    simp only [Function.onFun, List.disjoint_left, List.mem_map, List.mem_range]
    rintro c ⟨a, _, rfl⟩ ⟨b, _, hb⟩
    simp at hb; omega
  · rw [List.nodup_flatMap]
    refine ⟨fun i _ => List.Nodup.map (fun a b h => by simp at h; omega) List.nodup_range, ?_⟩
    refine List.Pairwise.imp_of_mem ?_ (List.nodup_range (n := n - 1))
    intro i j _ _ hij
    simp only [Function.onFun, List.disjoint_left, List.mem_map, List.mem_range]
    rintro c ⟨a, _, rfl⟩ ⟨b, _, hb⟩
    simp at hb; omega
  · simp only [List.disjoint_left, List.mem_flatMap, List.mem_map, List.mem_range]
    rintro c ⟨i, _, j, _, rfl⟩ ⟨i', _, j', _, hb⟩
    simp at hb; omega

/-- number of connected in-grid neighbours of `c` (= `get_coord_neighbors(c).shape[0]`) -/
def nbrCount (m : Maze) (c : Cell) : Nat :=
  ((nbrs c).filter fun n => decide (inGrid m.rows m.cols n) && decide (Adj m.E c n)).length

/-- the fork rule: more than one onward choice (an endpoint has no predecessor/successor on one side) -/
def isFork (m : Maze) (len : Nat) (always : Bool) (idx : Nat) (c : Cell) : Bool :=
  forkCond len idx (nbrCount m c) always

theorem forkLoop_spec {m : Maze} {len : Nat} {always : Bool} : ∀ {rest : List Cell} {idx : Nat},
    (∀ c ∈ rest, inGrid m.rows m.cols c) →
    forkLoop m len always idx rest = .ok (((rest.zipIdx idx).filter fun p => isFork m len always p.2 p.1).map (·.2))
  | [], _, _ => rfl
  | c :: rest, idx, h => by
    have hc := h c (by simp)
    have ih := forkLoop_spec (m := m) (len := len) (always := always) (rest := rest) (idx := idx + 1)
      (fun x hx => h x (List.mem_cons_of_mem _ hx))
    simp only [forkLoop, getCoordNeighbors_spec hc, ih, List.zipIdx_cons, List.filter_cons, isFork, nbrCount]
    by_cases hf : forkCond len idx ((nbrs c).filter fun n => decide (inGrid m.rows m.cols n) && decide (Adj m.E c n)).length always = true
    · simp only [hf, if_true, List.map_cons]
    · simp only [hf, if_false]; rfl

theorem zipIdx_range' : ∀ (n k : Nat), (List.range' k n).zipIdx k = (List.range' k n).map fun i => (i, i)
  | 0, _ => rfl
  | n + 1, k => by
    simp only [List.range'_succ, List.zipIdx_cons, List.map_cons, zipIdx_range' n (k + 1)]

theorem npDelete_range (n : Nat) (f : List Nat) : npDelete (List.range n) f = (List.range n).filter fun i => decide (i ∉ f) := by
  unfold npDelete
  rw [List.range_eq_range', zipIdx_range', List.filter_map, List.map_map]
  simp [Function.comp_def]

theorem mem_forkSpec {m : Maze} {len : Nat} {always : Bool} {sol : List Cell} {i : Nat} :
    i ∈ ((sol.zipIdx 0).filter fun p => isFork m len always p.2 p.1).map (·.2) ↔
      ∃ c, sol[i]? = some c ∧ isFork m len always i c = true := by
  constructor
  · intro h
    obtain ⟨⟨c, j⟩, hp, rfl⟩ := List.mem_map.1 h
    obtain ⟨hz, hf⟩ := List.mem_filter.1 hp
    exact ⟨c, List.mem_zipIdx_iff_getElem?.1 hz, hf⟩
  · rintro ⟨c, h1, h2⟩
    exact List.mem_map.2 ⟨(c, i), List.mem_filter.2 ⟨List.mem_zipIdx_iff_getElem?.2 h1, h2⟩, rfl⟩

theorem forkSpec_nodup {m : Maze} {len : Nat} {always : Bool} (sol : List Cell) :
    (((sol.zipIdx 0).filter fun p => isFork m len always p.2 p.1).map (·.2)).Nodup := by
  have : ((sol.zipIdx 0).map (·.2)).Nodup := by
    have e : (sol.zipIdx 0).map (·.2) = (sol.zipIdx 0).map Prod.snd := rfl
    rw [e, List.zipIdx_map_snd]; exact List.nodup_range'
  exact this.sublist (List.Sublist.map _ List.filter_sublist)

/-- forking points and path-following points: both calls succeed on an in-grid solution; an index is a fork exactly by the rule
    (neighbour count > 1 at the two ends, > 2 inside; or a forced endpoint); the following points are the complement; together
    they are a permutation of all indices (disjoint, nothing lost) -/
theorem forks_spec {m : Maze} {sol : List Cell} (h : ∀ c ∈ sol, inGrid m.rows m.cols c) (always : Bool) :
    ∃ f g, forkIdxs m sol always = .ok f ∧ followingIdxs m sol = .ok g ∧
      (∀ i, i ∈ f ↔ ∃ c, sol[i]? = some c ∧ isFork m sol.length always i c = true) ∧
      (∀ i, i ∈ g ↔ ∃ c, sol[i]? = some c ∧ isFork m sol.length false i c = false) ∧
      f.Nodup ∧ g.Nodup := by
  refine ⟨_, npDelete (List.range sol.length) (((sol.zipIdx 0).filter fun p => isFork m sol.length false p.2 p.1).map (·.2)),
    forkLoop_spec h, ?_, fun i => mem_forkSpec, ?_, forkSpec_nodup sol, ?_⟩
  · simp only [followingIdxs, forkIdxs, forkLoop_spec h]
  · intro i
    rw [npDelete_range]
    simp only [List.mem_filter, List.mem_range, decide_eq_true_eq, mem_forkSpec]
    constructor
    · rintro ⟨hi, hn⟩
      refine ⟨sol[i], List.getElem?_eq_getElem hi, ?_⟩
      cases hf : isFork m sol.length false i sol[i]
      · rfl
      · exact absurd ⟨sol[i], List.getElem?_eq_getElem hi, hf⟩ hn
    · rintro ⟨c, hc, hf⟩
      refine ⟨(List.getElem?_eq_some_iff.1 hc).1, ?_⟩
      rintro ⟨c', hc', hf'⟩
      rw [hc] at hc'; cases hc'
      rw [hf] at hf'; cases hf'
  · rw [npDelete_range]; exact List.nodup_range.sublist List.filter_sublist

/-- the partition: with `always_include_endpoints=False`, forks ++ following is a permutation of `0 .. len-1` -/
theorem forks_partition {m : Maze} {sol : List Cell} (h : ∀ c ∈ sol, inGrid m.rows m.cols c) :
    ∃ f g, forkIdxs m sol false = .ok f ∧ followingIdxs m sol = .ok g ∧ (f ++ g).Perm (List.range sol.length) := by
  obtain ⟨f, g, hf, hg, mf, mg, nf, ng⟩ := forks_spec h false
  refine ⟨f, g, hf, hg, ?_⟩
  rw [List.perm_ext_iff_of_nodup _ List.nodup_range]
  · intro i
    simp only [List.mem_append, mf, mg, List.mem_range]
    constructor
    · rintro (⟨c, hc, _⟩ | ⟨c, hc, _⟩) <;> exact (List.getElem?_eq_some_iff.1 hc).1
    · intro hi
      cases hfk : isFork m sol.length false i sol[i]
      · exact Or.inr ⟨sol[i], List.getElem?_eq_getElem hi, hfk⟩
      · exact Or.inl ⟨sol[i], List.getElem?_eq_getElem hi, hfk⟩
  · refine List.Nodup.append nf ng ?_
    intro i hi1 hi2
    obtain ⟨c, hc, h1⟩ := (mf i).1 hi1
    obtain ⟨c', hc', h2⟩ := (mg i).1 hi2
    rw [hc] at hc'; cases hc'
    rw [h1] at h2; cases h2

end MZ.Views
