import MazeVerif.DriverOps.Util
import MazeVerif.Model.Plot
namespace MZ.Drv.C20
open Lean MZ.Drv MZ.Plot

/-- pixel code on the wire: wall -1, one -2, conn -3, nan -4, `val id` = id ≥ 0 -/
def pxCode : Px Nat → Int
  | .wall => -1 | .one => -2 | .conn => -3 | .nan => -4 | .val v => (v : Int)

def errName : Err → String
  | .ValueError => "ValueError" | .AssertionError => "AssertionError" | .outOfModel => "outOfModel"

def jExcept (r : Except Err String) : Json :=
  match r with
  | .ok s => obj [("ok", Json.str s)]
  | .error e => obj [("err", Json.str (errName e))]

def asQP (j : Json) : R (Bool × List Cell) := do
  pure ((← getBool j "quiver"), (← getCells j "path"))

def getMaze (j : Json) : R MazeObj := do
  let rows ← getNat j "rows"
  let cols ← getNat j "cols"
  let E ← getEdges j "edges"
  match ← getStr j "kind" with
  | "plain" => pure (.plain rows cols E)
  | "targeted" => pure (.targeted rows cols E (← getCell j "start") (← getCell j "end"))
  | "solved" => pure (.solved rows cols E (← getCells j "solution"))
  | k => throw s!"unknown maze kind {k}"

/-- ops:
  * `C20.img` {rows, cols, edges, ul, node_ids: null | [[id…]…]} → {h, w, img: [[code…]…]} (`_lattice_maze_to_img`)
  * `C20.paths` {ul, true_path: null | {quiver, path}, predicted: [{quiver, path}…]} → {lines, quivers} in doubled integers
  * `C20.ascii` {maze: {kind, rows, cols, edges, start?, end?, solution?}, sp: [[r,c]…], added: null | [[r,c]…], se, ss}
      → {plot: {ok|err}, own: {ok|err}, solved: {ok|err}} (`to_ascii`, the maze's own `as_ascii`, `as_ascii` of the
      `SolvedMaze` built from `true_path`) -/
def handle (op : String) (j : Json) : R Json := do
  match op with
  | "C20.img" =>
    let rows ← getNat j "rows"
    let cols ← getNat j "cols"
    let E ← getEdges j "edges"
    let ul ← getNat j "ul"
    let nv : Option (Nat → Nat → Nat) ← match optFld j "node_ids" with
      | none => pure none
      | some v => do
        let tbl ← (← v.getArr?).toList.mapM asNatList
        if tbl.length ≠ rows ∨ tbl.any (fun l => l.length ≠ cols) then throw "node_ids: shape mismatch"
        let arr := (tbl.map List.toArray).toArray
        pure (some fun r c => (arr.getD r #[]).getD c 0)
    let (h, w, img) := latticeMazeToImg rows cols E ul nv
    let rowsJ := (List.range h).map fun y => jInts ((List.range w).map fun x => pxCode (img y x))
    pure <| obj [("h", jNat h), ("w", jNat w), ("img", Json.arr rowsJ.toArray)]
  | "C20.paths" =>
    let ul ← getNat j "ul"
    let tp ← match optFld j "true_path" with
      | none => pure none
      | some v => do pure (some (← asQP v))
    let preds ← (← getArr j "predicted").mapM asQP
    let arts := plotArtists ul tp preds
    let jPt (p : Int × Int) : Json := Json.arr #[jInt p.1, jInt p.2]
    pure <| obj [("lines", jList (fun l => jList jPt l) (linesOf arts)),
                 ("quivers", jList (fun q => Json.arr #[jInts q.1, jInts q.2.1, jInts q.2.2.1, jInts q.2.2.2]) (quiversOf arts))]
  | "C20.ascii" =>
    let m ← getMaze (← fld j "maze")
    let sp ← getCells j "sp"
    let se ← getBool j "se"
    let ss ← getBool j "ss"
    let p0 := newPlot m sp
    let p ← match optFld j "added" with
      | none => pure p0
      | some v => do pure (addTruePath p0 (← (← v.getArr?).toList.mapM asCell))
    let solved : Except Err String := do asAscii (← solvedMaze p) se ss
    pure <| obj [("plot", jExcept (toAscii p se ss)), ("own", jExcept (asAscii m se ss)), ("solved", jExcept solved)]
  | _ => throw s!"unknown op {op}"

end MZ.Drv.C20
