"""C02 — shortest-path solver sound, optimal, complete. The sequence of nodes A* expands is observed WITHOUT touching
the repo: `find_shortest_path` looks `min` up as a module global before the builtins, so the harness binds
`maze_dataset.maze.lattice_maze.min` to a recording wrapper. The Lean model replays the picks (each must be a legal
f-minimum of the open set) and must return the identical path / the error."""
import itertools, warnings
from collections import deque
import numpy as np

RULE = ("exhaustive: every connection structure on every grid up to 2x3 and a seed-selected 1/16 slice (quick) / all (thorough) of the 4096 "
        "structures on 3x3, x every ordered pair of cells; random: cyclic/disconnected/tree mazes up to 12x12 (thorough 20x20), oblong included, "
        "density 0.1-0.9, all pairs on small and sampled pairs on large grids; non-trivial = start != end; distinct = distinct (structure, pair); later additions: generator mazes with their metadata and integer-stored connection lists (all pairs, path validity judged), in-place edit sequences on one maze object (any exception counts as an answer), two-route and 4xN long mazes, SolvedMaze.from_targeted_lattice_maze on targeted mazes / solved mazes carrying longer legal walks / unconnected endpoints (also replayed through the model), int8 coordinate queries on big cyclic mazes, a 10-cell cycle placed across Manhattan distance 128 from the target (int8 / int64 / tuple queries), returned paths overwritten by the caller and asked again")
ASSUMPTIONS = ["`min(open_vtx, key=...)` returns some f-minimal element of the open set (validated: every observed pick is checked legal by the model)",
               "maze is well formed (WF) — true of every LatticeMaze the generators build (C01)"]
TRUSTED = ["module-global `min` shadow used to observe the expansion order (if the lookup stops being interceptable the check reports a broken correspondence)"]


def bfs(rows, cols, cl, s):
    dist = {s: 0}; q = deque([s])
    while q:
        x = q.popleft(); i, j = x
        nb = []
        if i + 1 < rows and cl[0, i, j]: nb.append((i + 1, j))
        if i > 0 and cl[0, i - 1, j]: nb.append((i - 1, j))
        if j + 1 < cols and cl[1, i, j]: nb.append((i, j + 1))
        if j > 0 and cl[1, i, j - 1]: nb.append((i, j - 1))
        for y in nb:
            if y not in dist: dist[y] = dist[x] + 1; q.append(y)
    return dist


def structures(rows, cols):
    slots = [(0, i, j) for i in range(rows - 1) for j in range(cols)] + [(1, i, j) for i in range(rows) for j in range(cols - 1)]
    for bits in range(1 << len(slots)):
        cl = np.zeros((2, rows, cols), dtype=bool)
        for k, sl in enumerate(slots):
            if bits >> k & 1: cl[sl] = True
        yield bits, cl


def solve_all(cl, pairs):
    """real solver on every pair; returns observations"""
    import maze_dataset.maze.lattice_maze as LM
    m = LM.LatticeMaze(connection_list=cl)
    out = []
    for s, e in pairs:
        picks = []
        def rec_min(it, key=None, _p=picks):
            v = min(it, key=key); _p.append([int(v[0]), int(v[1])]); return v
        LM.min = rec_min
        try:
            try:
                p = m.find_shortest_path(s, e)
                res = ("found", [[int(a), int(b)] for a, b in p])
            except ValueError:
                res = ("ValueError", None)
            except Exception as ex:
                res = (type(ex).__name__, None)
        finally:
            del LM.min
        out.append((s, e, picks, res))
    return out


def judge(ctx, rows, cols, cl, obs, tag):
    """oracle from the property text: BFS distances"""
    cache = {}
    for s, e, picks, (kind, path) in obs:
        d = cache.setdefault(s, bfs(rows, cols, cl, s))
        case = dict(rows=rows, cols=cols, edges=[[int(a), int(b), int(c)] for a, b, c in zip(*np.nonzero(cl))], start=list(s), end=list(e))
        ctx.case([tag, list(s), list(e)], nontrivial=s != e)
        bad = None
        if e in d:
            if kind != "found": bad = f"cells are connected (distance {d[e]}) but solver raised {kind}"
            else:
                if path[0] != list(s) or path[-1] != list(e): bad = f"path {path} does not run from {s} to {e}"
                elif len(path) - 1 != d[e]: bad = f"path has {len(path)-1} steps, minimum is {d[e]}"
                else:
                    for a, b in zip(path, path[1:]):
                        da = bfs(rows, cols, cl, tuple(a)) if False else None
                        i, j = a; k, l = b
                        ok = (abs(i - k) + abs(j - l) == 1) and (cl[0, min(i, k), j] if j == l else cl[1, i, min(j, l)])
                        if not ok: bad = f"path step {a}->{b} is not a connection"; break
                if s == e and path != [list(s)]: bad = f"self query returned {path}"
        else:
            if kind != "ValueError": bad = f"cells are not connected but solver returned {kind} {path}"
        if bad:
            ctx.violate(f"{rows}x{cols} maze {case['edges']} query {s}->{e}: {bad}", case)
            return False
    return True


def request(rows, cols, cl, obs):
    return dict(op="C02.astar", rows=rows, cols=cols, edges=[[int(a), int(b), int(c)] for a, b, c in zip(*np.nonzero(cl))],
                queries=[dict(start=list(s), end=list(e), picks=p) for s, e, p, _ in obs])


def compare(ctx, rows, cols, cl, obs, o):
    if "error" in o:
        ctx.disagree(f"driver error {o['error']}", dict(rows=rows, cols=cols)); return
    for (s, e, picks, (kind, path)), r in zip(obs, o["results"]):
        ctx.traces_validated += 1
        want = {"found": "found", "ValueError": "noPath"}.get(kind, kind)
        if r["res"] != want or (kind == "found" and r["path"] != path):
            ctx.disagree(f"{rows}x{cols} edges={request(rows, cols, cl, [])['edges']} {s}->{e} picks={picks}: model {r} vs implementation {kind} {path}",
                         dict(rows=rows, cols=cols, start=list(s), end=list(e)))
            return


def random_maze(rng, maxn):
    r, c = rng.randint(1, maxn), rng.randint(1, maxn)
    dens = rng.choice([0.1, 0.3, 0.5, 0.7, 0.9])
    cl = np.zeros((2, r, c), dtype=bool)
    for i in range(r):
        for j in range(c):
            if i + 1 < r and rng.random() < dens: cl[0, i, j] = True
            if j + 1 < c and rng.random() < dens: cl[1, i, j] = True
    return r, c, cl


def two_routes(n, bump, flip=False):
    """n x n maze made of exactly two corridors from (0,0) to (n-1,n-1): along the border (top row, then last column; 2(n-1) steps)
    and a staircase hugging the diagonal with one two-step detour at `bump` (2(n-1)+2 steps). A solver whose heuristic
    over-estimates near the start-end line by more than 2 returns the staircase."""
    cl = np.zeros((2, n, n), dtype=bool)
    def link(a, b):
        (i, j), (k, l) = a, b
        if i == k: cl[1, i, min(j, l)] = True
        else: cl[0, min(i, k), j] = True
    border = [(0, j) for j in range(n)] + [(i, n - 1) for i in range(1, n)]
    stair = [(0, 0)]
    while stair[-1] != (n - 1, n - 1):
        i, j = stair[-1]
        stair.append((i + 1, j) if i == j else (i, j + 1))
    # detour (+2 steps): ... (k+1,k) -> (k+1,k-1) -> (k+2,k-1) -> (k+2,k) -> (k+2,k+1) ... instead of (k+1,k) -> (k+1,k+1) -> (k+2,k+1)
    k = bump
    idx = stair.index((k + 1, k))
    assert stair[idx + 1] == (k + 1, k + 1) and stair[idx + 2] == (k + 2, k + 1)
    stair = stair[:idx + 1] + [(k + 1, k - 1), (k + 2, k - 1), (k + 2, k)] + stair[idx + 2:]
    for path in (border, stair):
        for a, b in zip(path, path[1:]): link(a, b)
    if flip: cl = np.stack([cl[1].T, cl[0].T])
    return cl


def long_two_routes(N, c, b):
    """4 x N maze, start (1,0), end (1,N-1): the corridor in row 1 is walled between columns b and b+1 (near the end) and passed
    by a +4 detour through rows 2,3; at column c (near the start) a branch climbs to row 0, runs to the end and comes down: +2.
    The branch is the shortest route (N+1 steps); a solver whose heuristic over-estimates in proportion to the distance still
    prefers the straight corridor when N is large enough."""
    cl = np.zeros((2, 4, N), dtype=bool)
    def link(a, b_):
        (i, j), (k, l) = a, b_
        if i == k: cl[1, i, min(j, l)] = True
        else: cl[0, min(i, k), j] = True
    row1 = [(1, j) for j in range(N)]
    for a, b_ in zip(row1, row1[1:]):
        if a != (1, b): link(a, b_)
    det = [(1, b), (2, b), (3, b), (3, b + 1), (2, b + 1), (1, b + 1)]
    for a, b_ in zip(det, det[1:]): link(a, b_)
    br = [(1, c), (0, c)] + [(0, j) for j in range(c + 1, N)] + [(1, N - 1)]
    for a, b_ in zip(br, br[1:]): link(a, b_)
    return cl


def mutation_sequences(ctx, n):
    """the solver on ONE maze object whose connection array is edited in place between queries (state carried between calls,
    e.g. a cache of neighbour lists, must not survive an edit): judged by BFS on the array as it is at the time of each query"""
    import maze_dataset.maze.lattice_maze as LM
    for k in range(n):
        r, c, cl = random_maze(ctx.rng, 5)
        if r * c < 2: continue
        m = LM.LatticeMaze(connection_list=cl.copy())
        cells = list(itertools.product(range(r), range(c)))
        for rnd in range(3):
            pairs = [(ctx.rng.choice(cells), ctx.rng.choice(cells)) for _ in range(6)]
            pairs += pairs[:3]          # asked again: the first answer was overwritten by the caller in between (below)
            cur = np.array(m.connection_list, dtype=bool)
            for s, e in pairs:
                d = bfs(r, c, cur, s)
                try:
                    p = m.find_shortest_path(s, e); got = len(p) - 1
                    ok_walk = all((abs(a[0] - b[0]) + abs(a[1] - b[1]) == 1) and (cur[0, min(a[0], b[0]), a[1]] if a[1] == b[1] else cur[1, a[0], min(a[1], b[1])]) for a, b in zip(p, p[1:]))
                    ok_walk = ok_walk and tuple(int(v) for v in p[0]) == tuple(s) and tuple(int(v) for v in p[-1]) == tuple(e)
                    try:
                        if isinstance(p, np.ndarray): p[...] = -1       # the path belongs to the caller
                        elif isinstance(p, list): p.clear()
                    except Exception: pass
                except ValueError:
                    got, ok_walk = None, True
                except Exception as ex:      # any other exception is an answer too (the statement allows a path or ValueError, nothing else)
                    got, ok_walk = f"{type(ex).__name__} ({str(ex)[:60]})", True
                ctx.case(["edit-seq", k, rnd, list(s), list(e)], nontrivial=rnd > 0)
                want = d.get(e)
                if got != want or not ok_walk:
                    ctx.violate(f"{r}x{c} maze queried{' again after ' + str(rnd) + ' in-place edit(s) of connection_list' if rnd else ''}: {s}->{e} gives "
                                f"{'ValueError' if got is None else (str(got) + ' steps' if isinstance(got, int) else 'the exception ' + got)}{'' if ok_walk else ' through a wall'}, BFS on the current array says {want if want is not None else 'not connected (ValueError expected)'}",
                                dict(rows=r, cols=c, edges=[[int(a), int(b), int(cc)] for a, b, cc in zip(*np.nonzero(cur))], start=list(s), end=list(e), edits=rnd, sequence=True))
                    return
            # edit in place: flip one or two lattice edges
            for _ in range(ctx.rng.randint(1, 2)):
                if r > 1 and (c == 1 or ctx.rng.random() < 0.5): m.connection_list[0, ctx.rng.randrange(r - 1), ctx.rng.randrange(c)] ^= True
                elif c > 1: m.connection_list[1, ctx.rng.randrange(r), ctx.rng.randrange(c - 1)] ^= True
        ctx.count("edit_sequences")


def generated_mazes(ctx, n):
    """mazes AS THE GENERATORS RETURN THEM (with generation_meta: visited_cells of one component, fully_connected flags) — the solver must
    not trust that metadata: every ordered pair, including pairs inside a SECOND component; plus the same structures stored with
    other element types (0/1 integers, nested lists), which LatticeMaze accepts. Judged by BFS on the array."""
    from maze_dataset.generation.generators import LatticeMazeGenerators as LG
    import maze_dataset.maze.lattice_maze as LM
    for k in range(n):
        g = ctx.rng.choice([3, 3, 4, 4, 5])
        np.random.seed(ctx.rng.randrange(2**32)); pyrandom_seed = ctx.rng.randrange(2**32)
        import random as _r; _r.seed(pyrandom_seed)
        kind = k % 4
        if kind == 0: m = LG.gen_percolation(np.array([g, g]), p=ctx.rng.choice([0.2, 0.3, 0.45]))
        elif kind == 1: m = LG.gen_dfs_percolation(np.array([g, g]), p=ctx.rng.choice([0.1, 0.3]), accessible_cells=ctx.rng.randint(2, g * g - 1))
        elif kind == 2: m = LG.gen_dfs(np.array([g, g]), accessible_cells=ctx.rng.randint(2, g * g - 1))
        else: m = LG.gen_dfs(np.array([g, g]), max_tree_depth=ctx.rng.randint(1, g))
        cl = np.array(m.connection_list, dtype=bool)
        # also: a second component planted by hand where the generator left isolated cells (keeps the generator's metadata)
        variants = [("generator maze with its generation_meta", m)]
        dt = ctx.rng.choice(["int8", "uint8", "int64"])
        try:
            variants.append((f"same structure stored as {dt}", LM.LatticeMaze(connection_list=(cl.astype(int).tolist() if dt == "list" else cl.astype(dt)))))
        except Exception:
            pass
        cells = list(itertools.product(range(g), range(g)))
        for label, mz in variants:
            for s in cells:
                d = bfs(g, g, cl, s)
                for e in cells:
                    try:
                        p = mz.find_shortest_path(s, e); got = len(p) - 1
                        pp = [tuple(int(v) for v in x) for x in p]
                        if pp[0] != s or pp[-1] != e or any(abs(a[0] - b[0]) + abs(a[1] - b[1]) != 1 or not (cl[0, min(a[0], b[0]), a[1]] if a[1] == b[1] else cl[1, a[0], min(a[1], b[1])])
                                                           for a, b in zip(pp, pp[1:])):
                            got = f"the path {pp}, which does not run from {s} to {e} along connections"
                    except ValueError:
                        got = None
                    except Exception as ex:
                        got = f"{type(ex).__name__}"
                    ctx.case(["generated", k, label[:9], list(s), list(e)], nontrivial=s != e)
                    if got != d.get(e):
                        ctx.violate(f"{g}x{g} {label} ({m.generation_meta.get('func_name')}): {s}->{e} gives {'ValueError' if got is None else got}, "
                                    f"BFS on the connection structure says {d.get(e) if e in d else 'not connected'}",
                                    dict(rows=g, cols=g, edges=[[int(a), int(b), int(c)] for a, b, c in zip(*np.nonzero(cl))], start=list(s), end=list(e), generated=label,
                                         meta_keys=sorted(m.generation_meta)))
                        return
        ctx.count("generator_mazes_all_pairs")


def solved_constructors(ctx, n, out=None):
    """the property's second observation point: SolvedMaze.from_targeted_lattice_maze(t).solution — for a plain TargetedLatticeMaze, for
    a SolvedMaze that already carries a legal but LONGER walk between its endpoints (paths come from users, from_tokens, from_pixels:
    nothing makes a stored one shortest), for a SolvedMaze carrying the shortest path, and for targeted mazes whose endpoints are not
    connected (ValueError expected). Judged by BFS on the connection structure."""
    import maze_dataset.maze.lattice_maze as LM
    for k in range(n):
        r, c, cl = random_maze(ctx.rng, 6)
        cells = list(itertools.product(range(r), range(c)))
        s = ctx.rng.choice(cells); d = bfs(r, c, cl, s)
        e = ctx.rng.choice(sorted(d)) if ctx.rng.random() < 0.8 else ctx.rng.choice(cells)
        edges = [[int(a), int(b), int(cc)] for a, b, cc in zip(*np.nonzero(cl))]
        def nbrs(x):
            i, j = x; out = []
            if i > 0 and cl[0, i - 1, j]: out.append((i - 1, j))
            if i < r - 1 and cl[0, i, j]: out.append((i + 1, j))
            if j > 0 and cl[1, i, j - 1]: out.append((i, j - 1))
            if j < c - 1 and cl[1, i, j]: out.append((i, j + 1))
            return out
        inputs = [("a TargetedLatticeMaze", lambda: LM.TargetedLatticeMaze(connection_list=cl.copy(), start_pos=np.array(s), end_pos=np.array(e)))]
        if e in d:
            # a legal walk from s to e with detours: random steps, then the BFS route home
            walk = [s]
            for _ in range(ctx.rng.randrange(0, 8)):
                nb = nbrs(walk[-1])
                if not nb: break
                walk.append(ctx.rng.choice(nb))
            de = bfs(r, c, cl, e)
            while walk[-1] != e:
                walk.append(min(nbrs(walk[-1]), key=lambda x: de[x]))
            inputs.append((f"a SolvedMaze that carries the legal {len(walk) - 1}-step walk {walk}", lambda w=walk: LM.SolvedMaze(connection_list=cl.copy(), solution=np.array(w))))
        for label, mk in inputs:
            case = dict(rows=r, cols=c, edges=edges, start=list(s), end=list(e), constructor=label[:40])
            ctx.case(["ctor", k, label[:12]], nontrivial=s != e); ctx.count("from_targeted_lattice_maze")
            try:
                t = mk()
            except Exception as ex:
                continue
            picks = []
            def rec_min(it, key=None, _p=picks):
                v = min(it, key=key); _p.append([int(v[0]), int(v[1])]); return v
            LM.min = rec_min
            try:
                sol = [tuple(int(v) for v in x) for x in LM.SolvedMaze.from_targeted_lattice_maze(t).solution]; got = len(sol) - 1
            except ValueError:
                sol, got = None, None
            except Exception as ex:
                sol, got = None, type(ex).__name__
            finally:
                del LM.min
            if out is not None and (sol is not None or got is None):
                # the same query through the model of the solver (the constructor must be exactly one solver call)
                out.append((r, c, cl, [(s, e, picks, ("found", [list(x) for x in sol]) if sol is not None else ("ValueError", None))], f"ctor{k}"))
            bad = None
            if e in d:
                if sol is None: bad = f"raised {got or 'ValueError'} although the endpoints are connected (distance {d[e]})"
                elif sol[0] != s or sol[-1] != e: bad = f"solution {sol} does not run from {s} to {e}"
                elif any(b not in nbrs(a) for a, b in zip(sol, sol[1:])): bad = f"solution {sol} leaves the connections"
                elif got != d[e]: bad = f"solution has {got} steps, the minimum is {d[e]}"
            elif sol is not None or got is not None:
                bad = f"endpoints are not connected but the result was {sol if sol is not None else got}"
            if bad:
                ctx.violate(f"SolvedMaze.from_targeted_lattice_maze on {label} ({r}x{c} maze {edges}, {s}->{e}): {bad}", case); return


def int8_far_queries(ctx, n):
    """queries whose coordinates are int8 arrays (the dtype the library declares for a Coord and loads solutions back as) between cells
    128+ steps apart on big mazes WITH cycles: judged by BFS. Oracle only."""
    import maze_dataset.maze.lattice_maze as LM
    done = 0
    while done < n and not ctx.violations:
        g = ctx.rng.choice([90, 90, 100, 127])
        dens = ctx.rng.choice([0.6, 0.7, 0.8])
        cl = np.zeros((2, g, g), dtype=bool)
        cl[0, : g - 1, :] = np.random.RandomState(ctx.rng.randrange(2**31)).rand(g - 1, g) < dens
        cl[1, :, : g - 1] = np.random.RandomState(ctx.rng.randrange(2**31)).rand(g, g - 1) < dens
        m = LM.LatticeMaze(connection_list=cl.copy())
        for _ in range(6):
            s = (ctx.rng.randrange(g // 8), ctx.rng.randrange(g // 8)) if ctx.rng.random() < 0.5 else (g - 1 - ctx.rng.randrange(g // 8), ctx.rng.randrange(g // 8))
            e = (g - 1 - ctx.rng.randrange(g // 8), g - 1 - ctx.rng.randrange(g // 8)) if ctx.rng.random() < 0.7 else (ctx.rng.randrange(g), g - 1 - ctx.rng.randrange(g // 8))
            if ctx.rng.random() < 0.5: s, e = e, s
            d = bfs(g, g, cl, s)
            done += 1; ctx.case(["int8-far", g, list(s), list(e)], nontrivial=True); ctx.count("int8_far_queries")
            try:
                pth = m.find_shortest_path(np.array(s, dtype=np.int8), np.array(e, dtype=np.int8)); got = len(pth) - 1
            except ValueError:
                got = None
            except Exception as ex:
                got = f"{type(ex).__name__}"
            if got != d.get(e):
                ctx.violate(f"{g}x{g} maze with cycles (random, density {dens}), query with int8 coordinate arrays {s}->{e}: the solver gives "
                            f"{'ValueError' if got is None else got}, BFS on the connection structure says {d.get(e) if e in d else 'not connected'}",
                            dict(rows=g, cols=g, edges=[[int(a), int(b), int(c)] for a, b, c in zip(*np.nonzero(cl))], start=list(s), end=list(e), int8_query=True)); return


def far_cycle_with_tail(ctx, n):
    """a small cycle FAR from the target (two routes around it, 4 and 6 steps) and one long corridor from the cycle to the corner (0,0), on grids
    where the far side is 128+ steps away; queried from the far side of the cycle with int8, int64 and tuple coordinates. Oracle only."""
    import maze_dataset.maze.lattice_maze as LM
    def connect(cl, a, b):
        if a[0] == b[0]: cl[1, a[0], min(a[1], b[1])] = True
        else: cl[0, min(a[0], b[0]), a[1]] = True
    for k in range(n):
        g = ctx.rng.choice([70, 100, 127])
        # the cycle straddles Manhattan distance 128 from the target (0,0): some of its cells are 127 or less away, others 128 or more
        D = ctx.rng.choice([126, 127, 128, 128, 129, 130, 131])
        r0 = ctx.rng.randrange(max(2, D - 2 - (g - 4)), min(g - 4, D - 4) + 1)
        c0 = D - 2 - r0
        if not (0 < c0 <= g - 3 and 0 < r0 <= g - 4): continue
        cl = np.zeros((2, g, g), dtype=bool)
        S, B = (r0, c0 + 2), (r0 + 2, c0)
        short = [S, (r0, c0 + 1), (r0, c0), (r0 + 1, c0), B]
        long_ = [S, (r0 + 1, c0 + 2), (r0 + 2, c0 + 2), (r0 + 3, c0 + 2), (r0 + 3, c0 + 1), (r0 + 3, c0), B]
        tail = [B] + [(r0 + 2, c) for c in range(c0 - 1, -1, -1)] + [(r, 0) for r in range(r0 + 1, -1, -1)]
        for route in (short, long_, tail):
            for a, b in zip(route, route[1:]): connect(cl, a, b)
        m = LM.LatticeMaze(connection_list=cl.copy())
        for s, e in ((S, (0, 0)), ((0, 0), S), ((r0 + 3, c0 + 2), (0, 0)), ((r0 + 1, c0 + 2), (r0 + 2, 0))):
            d = bfs(g, g, cl, s)
            for label, conv in (("int8 arrays", lambda x: np.array(x, dtype=np.int8)), ("int64 arrays", lambda x: np.array(x)), ("tuples", lambda x: x)):
                ctx.case(["far-cycle", g, r0, c0, list(s), list(e), label], nontrivial=True); ctx.count("far_cycle_queries")
                try: got = len(m.find_shortest_path(conv(s), conv(e))) - 1
                except ValueError: got = None
                except Exception as ex: got = f"{type(ex).__name__}"
                if got != d.get(e):
                    ctx.violate(f"{g}x{g} maze: a 10-cell cycle at rows {r0}..{r0 + 3}, columns {c0}..{c0 + 2} with one corridor to (0,0); query {s}->{e} given as {label}: the solver "
                                f"gives {'ValueError' if got is None else got}, BFS on the connection structure says {d.get(e)}",
                                dict(rows=g, cols=g, edges=[[int(a), int(b), int(c)] for a, b, c in zip(*np.nonzero(cl))], start=list(s), end=list(e), int8_query=(label == "int8 arrays"))); return


def big_jobs(rng, quick):
    """scale: grids far beyond the exhaustive range (a defect may need a long distance or a large coordinate to show)"""
    jobs = []
    for k, (r, c) in enumerate([(50, 50), (36, 72)] if quick else [(50, 50), (36, 72), (72, 36), (64, 64), (90, 30), (100, 100)]):
        dens = [0.75, 0.9][k % 2]
        cl = np.zeros((2, r, c), dtype=bool)
        cl[0, : r - 1, :] = np.array([[rng.random() < dens for _ in range(c)] for _ in range(r - 1)])
        cl[1, :, : c - 1] = np.array([[rng.random() < dens for _ in range(c - 1)] for _ in range(r)])
        corners = [(0, 0), (r - 1, c - 1), (0, c - 1), (r - 1, 0)]
        pairs = [(corners[0], corners[1]), (corners[2], corners[3]), ((rng.randrange(r), rng.randrange(c)), (rng.randrange(r), rng.randrange(c)))]
        jobs.append((r, c, cl, pairs, f"big{k}"))
    for k, n in enumerate([50, 64] if quick else [30, 50, 64, 80, 100, 128]):
        cl = two_routes(n, rng.randrange(2, n - 3), flip=bool(k % 2))
        jobs.append((n, n, cl, [((0, 0), (n - 1, n - 1)), ((n - 1, n - 1), (0, 0))], f"tworoutes{n}"))
    for N in ([2200, 4500] if quick else [1100, 2200, 4500, 9000, 20000]):
        cl = long_two_routes(N, rng.randrange(1, 10), N - 2 - rng.randrange(1, 10))
        jobs.append((4, N, cl, [((1, 0), (1, N - 1))], f"long{N}"))
    return jobs


def _work(args):
    rows, cols, cl, pairs = args
    return solve_all(cl, pairs)


def run(ctx):
    warnings.filterwarnings("ignore")
    jobs = []
    small = [(1, 1), (1, 2), (2, 1), (2, 2), (1, 3), (3, 1), (1, 4), (2, 3), (3, 2)]
    for (r, c) in small:
        cells = list(itertools.product(range(r), range(c)))
        for bits, cl in structures(r, c):
            jobs.append((r, c, cl, list(itertools.product(cells, cells)), f"{r}x{c}#{bits}"))
    cells = list(itertools.product(range(3), range(3)))
    sl = ctx.seed % 16
    for bits, cl in structures(3, 3):
        if ctx.tier == "thorough" or bits % 16 == sl:
            jobs.append((3, 3, cl, list(itertools.product(cells, cells)), f"3x3#{bits}"))
    ctx.extra["exhaustive_3x3"] = ctx.tier == "thorough"
    for k in range(300 if ctx.quick else 4000):
        r, c, cl = random_maze(ctx.rng, 12 if ctx.quick else 20)
        cells = list(itertools.product(range(r), range(c)))
        pairs = list(itertools.product(cells, cells)) if r * c <= 12 else [(ctx.rng.choice(cells), ctx.rng.choice(cells)) for _ in range(40)]
        jobs.append((r, c, cl, pairs, f"rnd{k}"))
    jobs += big_jobs(ctx.rng, ctx.quick)
    mutation_sequences(ctx, 60 if ctx.quick else 1500)
    generated_mazes(ctx, 40 if ctx.quick else 600)
    int8_far_queries(ctx, 12 if ctx.quick else 240)
    if not ctx.violations: far_cycle_with_tail(ctx, 6 if ctx.quick else 60)
    ctor_obs = []
    solved_constructors(ctx, 300 if ctx.quick else 6000, ctor_obs)
    ctx.count("mazes", len(jobs))
    if ctx.quick:
        results = [solve_all(cl, pairs) for r, c, cl, pairs, _ in jobs]
    else:
        import multiprocessing as mp
        with mp.get_context("fork").Pool(16) as pool:
            results = pool.map(_work, [(r, c, cl, pairs) for r, c, cl, pairs, _ in jobs], chunksize=64)
    for r, c, cl, obs, tag in ctor_obs:          # constructor runs join the model comparison (not re-judged: judged where they ran)
        jobs.append((r, c, cl, [(obs[0][0], obs[0][1])], tag)); results.append(obs)
    reqs = []
    for (r, c, cl, pairs, tag), obs in zip(jobs, results):
        ctx.count(f"grid={r}x{c}" if r * c <= 9 else "grid>9")
        for _, _, _, (kind, _) in obs: ctx.count(f"outcome={kind}")
        judge(ctx, r, c, cl, obs, tag)
        reqs.append(request(r, c, cl, obs))
        if tag.startswith("rnd") and len(obs) > 3:
            ctx.sample(dict(rows=r, cols=c, query=[obs[1][0], obs[1][1]], picks=obs[1][2], result=obs[1][3]), limit=3)
    outs = ctx.driver.run_parallel(reqs)
    for (r, c, cl, pairs, tag), obs, o in zip(jobs, results, outs):
        compare(ctx, r, c, cl, obs, o)
    ctx.exhaustive = ctx.tier == "thorough"


def search(ctx):
    far_cycle_with_tail(ctx, 40)
    if ctx.violations: return
    int8_far_queries(ctx, 60)
    if ctx.violations: return
    mutation_sequences(ctx, 300)
    if ctx.violations: return
    generated_mazes(ctx, 200)
    if ctx.violations: return
    solved_constructors(ctx, 2000)
    if ctx.violations: return
    for r, c, cl, pairs, tag in big_jobs(ctx.rng, False):
        if not judge(ctx, r, c, cl, solve_all(cl, pairs), tag):
            return
    for k in range(2000 if ctx.quick else 20000):
        r, c, cl = random_maze(ctx.rng, 8)
        cells = list(itertools.product(range(r), range(c)))
        pairs = [(ctx.rng.choice(cells), ctx.rng.choice(cells)) for _ in range(30)]
        if not judge(ctx, r, c, cl, solve_all(cl, pairs), f"s{k}"):
            return


def replay(ctx, rp):
    c = rp["case"]
    if c.get("constructor"):
        solved_constructors(ctx, 2000); return
    cl = np.zeros((2, c["rows"], c["cols"]), dtype=bool)
    for d, i, j in c["edges"]: cl[d, i, j] = True
    if c.get("int8_query"):
        import maze_dataset.maze.lattice_maze as LM
        s0, e0 = tuple(c["start"]), tuple(c["end"]); d0 = bfs(c["rows"], c["cols"], cl, s0)
        try: got = len(LM.LatticeMaze(connection_list=cl).find_shortest_path(np.array(s0, dtype=np.int8), np.array(e0, dtype=np.int8))) - 1
        except ValueError: got = None
        if got != d0.get(e0): ctx.violate(f"replay: int8 query {s0}->{e0} gives {got}, BFS says {d0.get(e0)}", c)
        return
    judge(ctx, c["rows"], c["cols"], cl, solve_all(cl, [(tuple(c["start"]), tuple(c["end"]))]), "replay")
