import MazeVerif.Model.TokAdj
import MazeVerif.Generated.TokVocab
/-! Path region of `MazeTokenizerModular`
    (maze_tokenizer.py:1323-1690: `StepSizes.Singles/Forks`, `StepTokenizers.Coord/Cardinal/Relative/Distance`,
     `PathTokenizers.StepSequence.to_tokens/_single_step_tokens/_leading_tokens`;
     token_utils.py:120-158 `get_cardinal_direction`, `get_relative_direction`;
     lattice_maze.py:223-243,1238-1261 `get_coord_neighbors`, `get_solution_forking_points`).  Core Lean only.

    Valid space (1008): `Singles | Forks` × 63 duplicate-free non-empty sequences of step tokenizers other than `(Distance,)`
    × `pre` × `intra` × `post`. -/
namespace MZ.Tok

inductive StepTk | coord | cardinal | relative | distance
deriving DecidableEq, Repr

structure PathCfg where
  forks : Bool             -- step_size: StepSizes.Forks (true) / StepSizes.Singles (false)
  steps : List StepTk      -- step_tokenizers
  pre : Bool
  intra : Bool
  post : Bool
deriving DecidableEq, Repr

/-- `StepSequence.is_valid` (+ the tuple type admits 1..4 entries) -/
def PathCfg.Valid (pc : PathCfg) : Prop := pc.steps ≠ [] ∧ pc.steps.Nodup ∧ pc.steps ≠ [.distance]
instance (pc : PathCfg) : Decidable pc.Valid := by unfold PathCfg.Valid; exact inferInstance

def cellOf (c : C) : Cell := ((c.1 : Int), (c.2 : Int))

/-- `len(maze.get_coord_neighbors(c))`: candidates `c + NEIGHBORS_MASK`, in bounds, `nodes_connected` (storage rule `edgeOf`) -/
def degree (m : Maze) (c : C) : Nat :=
  ((nbrs (cellOf c)).filter fun nb => decide (inGrid m.rows m.cols nb) && m.edges.contains (edgeOf (cellOf c) nb)).length

/-- `get_solution_forking_points(always_include_endpoints=True)[0]` -/
def forkIdxs (m : Maze) (sol : List C) : List Nat :=
  (List.range sol.length).filter fun idx =>
    match sol[idx]? with
    | none => false
    | some c =>
      let isEnd : Bool := idx == 0 || idx + 1 == sol.length
      let th : Nat := if isEnd then 1 else 2
      decide (degree m c > th) || isEnd

/-- `step_size._step_single_indices(maze)` -/
def stepIdxs (forks : Bool) (m : Maze) (sol : List C) : List Nat :=
  if forks then forkIdxs m sol else List.range sol.length

/-- `zip(indices[:-1], indices[1:])` -/
def idxPairs (l : List Nat) : List (Nat × Nat) := l.zip l.tail

/-- `get_relative_direction(coords)` for `prev, cur, next` (ValueError / fall-through `None` = `none`) -/
def relDir (prev cur nxt : C) : Option Rel :=
  let d0 : Int × Int := ((cur.1 : Int) - prev.1, (cur.2 : Int) - prev.2)
  let d1 : Int × Int := ((nxt.1 : Int) - cur.1, (nxt.2 : Int) - cur.2)
  -- `np.linalg.norm(directions, axis=1) <= 1.1`
  if ¬ (d0.1 * d0.1 + d0.2 * d0.2 ≤ 1 ∧ d1.1 * d1.1 + d1.2 * d1.2 ≤ 1) then none
  else if cur = nxt then some .stay
  else if prev = nxt then some .backward
  else if prev = cur then none
  else if d0 = d1 then some .forward
  else
    let z := d0.1 * d1.2 - d0.2 * d1.1
    if z = 1 then some .left else if z = -1 then some .right else none

/-- semantic value carried by one step tokenizer for one step -/
inductive StepVal
  | coord (c : C) | card (d : Dir) | rel (r : Rel) | dist (k : Nat)
deriving DecidableEq, Repr

/-- `step_tokenizer.to_tokens(maze, i, j, coord_tokenizer=…)` as a value (IndexError/KeyError/ValueError/AttributeError = `none`) -/
def stepVal (sol : List C) (i j : Nat) : StepTk → Option StepVal
  | .coord => (sol[j]?).map .coord
  | .cardinal =>
    match sol[i]?, sol[i + 1]? with
    | some a, some b => (dirOf a b).map .card
    | _, _ => none
  | .relative =>
    match sol[i]?, sol[i + 1]? with
    | some a, some b =>
      if i = 0 then (relDir (a.1 + 1, a.2) a b).map .rel
      else
        match sol[i - 1]? with
        | some p => (relDir p a b).map .rel
        | none => none
    | _, _ => none
  | .distance =>
    -- `getattr(VOCAB, f"I_{d:03}")`: the field exists exactly for the generated `I_` block
    if Gen.distLo ≤ j - i ∧ j - i < Gen.distHi then some (.dist (j - i)) else none

def valToks (ct : CoordTok) : StepVal → List Tok
  | .coord c => coordToks ct c
  | .card d => [.card d]
  | .rel r => [.rel r]
  | .dist k => [.dist k]

/-- values of one step, one per step tokenizer -/
def stepVals (sol : List C) (i j : Nat) : List StepTk → Option (List StepVal)
  | [] => some []
  | s :: ss =>
    match stepVal sol i j s, stepVals sol i j ss with
    | some v, some r => some (v :: r)
    | _, _ => none

/-- the token body of one step: each tokenizer's tokens, each followed by `:` iff `intra` -/
def bodyToks (ct : CoordTok) (intra : Bool) : List StepVal → List Tok
  | [] => []
  | v :: vs => valToks ct v ++ opt intra .pathIntra ++ bodyToks ct intra vs

/-- `_single_step_tokens` on already computed values -/
def stepToksOf (pc : PathCfg) (ct : CoordTok) (vs : List StepVal) : List Tok :=
  opt pc.pre .pathPre ++ bodyToks ct pc.intra vs ++ opt pc.post .pathPost

/-- decoded / specified content of the path region -/
structure PathInfo where
  start : Option C               -- leading coord, present iff `Coord ∈ step_tokenizers`
  steps : List (List StepVal)    -- per step, one value per step tokenizer
deriving DecidableEq, Repr

def allSteps (pc : PathCfg) (sol : List C) : List (Nat × Nat) → Option (List (List StepVal))
  | [] => some []
  | ij :: rest =>
    match stepVals sol ij.1 ij.2 pc.steps, allSteps pc sol rest with
    | some v, some r => some (v :: r)
    | _, _ => none

/-- the specification record of the path region: what must be recoverable (IndexError on an empty solution = `none`) -/
def pathInfo (pc : PathCfg) (m : Maze) (sol : List C) : Option PathInfo :=
  let lead : Option (Option C) :=
    if .coord ∈ pc.steps then (match sol[0]? with | some c => some (some c) | none => none) else some none
  match lead, allSteps pc sol (idxPairs (stepIdxs pc.forks m sol)) with
  | some l, some s => some ⟨l, s⟩
  | _, _ => none

def leadToks (pc : PathCfg) (ct : CoordTok) : Option C → List Tok
  | some c => opt pc.pre .pathPre ++ coordToks ct c ++ opt pc.intra .pathIntra
  | none => []

def pathInfoToks (pc : PathCfg) (ct : CoordTok) (p : PathInfo) : List Tok :=
  leadToks pc ct p.start ++ (p.steps.map (stepToksOf pc ct)).flatten

/-- `StepSequence.to_tokens(maze, coord_tokenizer)` -/
def pathToks (pc : PathCfg) (ct : CoordTok) (m : Maze) (sol : List C) : Option (List Tok) :=
  (pathInfo pc m sol).map (pathInfoToks pc ct)

/-! ## decoder -/

def parseVal (ct : CoordTok) (s : StepTk) (ts : List Tok) : Option (StepVal × List Tok) :=
  match s with
  | .coord => match parseCoord ct ts with | some (c, r) => some (.coord c, r) | none => none
  | .cardinal => match ts with | .card d :: r => some (.card d, r) | _ => none
  | .relative => match ts with | .rel x :: r => some (.rel x, r) | _ => none
  | .distance => match ts with | .dist k :: r => some (.dist k, r) | _ => none

def parseBody (ct : CoordTok) (intra : Bool) : List StepTk → List Tok → Option (List StepVal × List Tok)
  | [], ts => some ([], ts)
  | s :: ss, ts =>
    match parseVal ct s ts with
    | none => none
    | some (v, ts) =>
      match eat intra .pathIntra ts with
      | none => none
      | some ts =>
        match parseBody ct intra ss ts with
        | none => none
        | some (vs, r) => some (v :: vs, r)

def parseStep (pc : PathCfg) (ct : CoordTok) (ts : List Tok) : Option (List StepVal × List Tok) :=
  match eat pc.pre .pathPre ts with
  | none => none
  | some ts =>
    match parseBody ct pc.intra pc.steps ts with
    | none => none
    | some (vs, ts) =>
      match eat pc.post .pathPost ts with
      | none => none
      | some ts => some (vs, ts)

def parseLead (pc : PathCfg) (ct : CoordTok) (ts : List Tok) : Option (Option C × List Tok) :=
  if .coord ∈ pc.steps then
    match eat pc.pre .pathPre ts with
    | none => none
    | some ts =>
      match parseCoord ct ts with
      | none => none
      | some (c, ts) =>
        match eat pc.intra .pathIntra ts with
        | none => none
        | some ts => some (some c, ts)
  else some (none, ts)

/-- decode the path region up to (not including) `stop` -/
def parsePath (pc : PathCfg) (ct : CoordTok) (stop : Tok) (ts : List Tok) : Option (PathInfo × List Tok) :=
  match parseLead pc ct ts with
  | none => none
  | some (l, ts) =>
    match parseMany stop (parseStep pc ct) (ts.length + 1) ts with
    | none => none
    | some (ss, r) => some (⟨l, ss⟩, r)

end MZ.Tok
