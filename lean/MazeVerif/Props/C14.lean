import MazeVerif.Lemmas.VocabBlocks
import MazeVerif.Lemmas.VocabLink
/-! # C14 — token vocabularies and token-id codecs are fixed, duplicate-free, invertible

Model: `MZ.Vocab` (`Model/Vocab.lean`): `vocab` = `VOCAB_LIST` built from `Generated/Constants.lean`
(`specialTokens`, `vocabFieldsHead`, `vocabUTSize`), `cornerFirst` = `corner_first_ndindex` (stable `mergeSort` by the
Python key), `tokenToIndex` = the dict built by `{token: i for i, token in enumerate(…)}`, `encode`/`decode` with the
`TokenError` branch, legacy `tokenArr mode n`. Only property theorems and their non-vacuity examples live here; helper
lemmas are `private`. Every theorem is unbounded in the sizes it mentions (all `n`, all token / id sequences). -/
namespace MZ.Vocab
open List

/-! ## statements -/

/-- encode and decode over a vocabulary list `voc` are mutual inverses and reject everything outside it with `TokenError` -/
def CodecOK (voc : List String) : Prop :=
  (∀ ts : List String, (∀ t ∈ ts, t ∈ voc) →
      ∃ ids, encode voc ts = .ok ids ∧ ids.length = ts.length ∧ (∀ i ∈ ids, i < voc.length) ∧
        decode voc (ids.map Int.ofNat) = .ok ts) ∧
  (∀ ids : List Int, (∀ i ∈ ids, 0 ≤ i ∧ i < voc.length) →
      ∃ ts, decode voc ids = .ok ts ∧ ts.length = ids.length ∧ (∀ t ∈ ts, t ∈ voc) ∧
        ∃ ns, encode voc ts = .ok ns ∧ ns.map Int.ofNat = ids) ∧
  (∀ ts : List String, (∃ t ∈ ts, t ∉ voc) → encode voc ts = .error .tokenError) ∧
  (∀ ids : List Int, (∃ i ∈ ids, i < 0 ∨ (voc.length : Int) ≤ i) → decode voc ids = .error .tokenError)

/-- the token-to-id map is the inverse of the token list -/
def MapInverse (voc : List String) : Prop :=
  (∀ i (h : i < voc.length), tokenToIndex voc voc[i] = some i) ∧
  (∀ t i, tokenToIndex voc t = some i → voc[i]? = some t) ∧
  (∀ t, tokenToIndex voc t = none ↔ t ∉ voc)

/-- the published layout of `VOCAB_LIST`: block decomposition, offsets and the closed form of every position -/
def Layout : Prop :=
  vocab = specials ++ litsA ++ segPlus ++ segCTT ++ segNeg ++ litsB ++ segRes ++ utTokens ∧
  (∀ i, i < 11 → vocab[i]? = (Gen.specialTokens.map (·.2))[i]?) ∧
  (∀ i, i < 1585 → vocab[11 + i]? = (Gen.vocabFieldsHead.map (·.2))[i]?) ∧
  (∀ i, i < 53 → vocab[11 + i]? = litsA[i]?) ∧
  (∀ i, i < 256 → vocab[64 + i]? = some ("+" ++ Nat.repr i)) ∧
  (∀ i, i < 128 → vocab[320 + i]? = some (Nat.repr i)) ∧
  (∀ i, i < 256 → vocab[448 + i]? = some ("-" ++ Nat.repr (256 - i))) ∧
  (∀ i, i < 4 → vocab[704 + i]? = litsB[i]?) ∧
  (∀ i, 708 ≤ i → i < 1596 → vocab[i]? = some ("<RESERVE_" ++ Nat.repr i ++ ">")) ∧
  (∀ k, k < 2500 → vocab[1596 + k]? = (cornerFirst 50)[k]?.map coordToken)

/-- Full statement of C14 (proved below as `C14_full_holds`). -/
def C14_full : Prop :=
  vocab.length = 4096 ∧ vocab.Nodup ∧ Layout ∧ MapInverse vocab ∧ CodecOK vocab ∧
  (∀ (m : Mode) (n : Nat), (tokenArr m n).Nodup ∧ MapInverse (tokenArr m n) ∧ CodecOK (tokenArr m n)) ∧
  (∀ n i j, i < n → j < n → (tokenArr .rasterized n)[11 + (i * n + j)]? = some (coordToken (i, j))) ∧
  (∀ n m, n ≤ m → cornerFirst n <+: cornerFirst m) ∧
  (∀ n m, n ≤ m → tokenArr .uniform n <+: tokenArr .uniform m)

/-! ## the modular vocabulary -/

/-- `len(VOCAB_LIST) = 4096`, by the length lemmas of the blocks (11 + 1585 + 50·50) -/
theorem C14_length : vocab.length = 4096 := length_vocab

/-- the 4096 tokens are pairwise distinct (blocks are duplicate-free and told apart by their leading characters) -/
theorem C14_nodup : vocab.Nodup := vocab_nodup

/-- the block view `specials ++ flatten (blocks of _VOCAB_FIELDS)` is the same list -/
theorem C14_blocks : vocab = vocabFromBlocks ∧ vocabFromBlocks.length = 4096 :=
  ⟨vocab_eq_vocabFromBlocks, vocab_eq_vocabFromBlocks ▸ length_vocab⟩

/-! ## the two models of `VOCAB_LIST` (this one and the generated one used by `C06_vocab`) -/

/-- the naive link between `MZ.Gen.vocab` (Generated/TokVocab.lean, the vocabulary `C06_vocab` talks about) and this file's
    `vocab`: equality as lists. It is FALSE (`C14_vocab_models_equal_false`): the generated list keeps the `UT_xx_yy` block in
    plain `np.ndindex` order. The exact relation is `C14_vocab_models_agree`. -/
def C14_vocab_models_equal : Prop := MZ.Gen.vocab = vocab

/-- counterexample to list equality: position 1598 (= 1596 + 2) holds `"(0,2)"` in `Gen.vocab` and `"(1,0)"` in `vocab`
    (`corner_first_ndindex(50)` starts `(0,0), (0,1), (1,0), (1,1), …`, row-major starts `(0,0), (0,1), (0,2), …`) -/
theorem C14_vocab_models_equal_false : ¬ C14_vocab_models_equal := by
  intro h
  have h1 := gen_vocab_1598.1
  rw [h, gen_vocab_1598.2] at h1
  exact absurd h1 (by decide)

/-- **The two vocabulary models agree up to the order inside the coordinate block** (structural proof, block by block; no
    evaluation of the 4096 strings): `Gen.vocab` is a permutation of `vocab`; both are `vocabHead ++ UT block` with the same
    1596-token head (special tokens and `_VOCAB_FIELDS` up to `RESERVE_1595`, same order, hence same ids below 1596); the UT block is
    `(ndindex 50).map coordToken` in the generated list and `(cornerFirst 50).map coordToken` in this model. Consequently they have
    the same members, the same length 4096 and both are duplicate-free — all `C06_vocab` uses is membership. -/
theorem C14_vocab_models_agree :
    MZ.Gen.vocab ~ vocab ∧
    MZ.Gen.vocab = vocabHead ++ (ndindex 50).map coordToken ∧
    vocab = vocabHead ++ (cornerFirst 50).map coordToken ∧
    vocabHead.length = 1596 ∧
    (∀ i, i < 1596 → MZ.Gen.vocab[i]? = vocab[i]?) ∧
    (∀ t, t ∈ MZ.Gen.vocab ↔ t ∈ vocab) ∧
    MZ.Gen.vocab.length = 4096 ∧ MZ.Gen.vocab.Nodup := by
  refine ⟨gen_vocab_perm, gen_vocab_eq, ?_, length_vocabHead, ?_, fun t => gen_vocab_perm.mem_iff, ?_, ?_⟩
  · rw [vocab_eq_head]; rfl
  · intro i hi
    rw [gen_vocab_eq, vocab_eq_head, List.getElem?_append_left (by rw [length_vocabHead]; exact hi),
      List.getElem?_append_left (by rw [length_vocabHead]; exact hi)]
  · rw [gen_vocab_perm.length_eq, C14_length]
  · exact gen_vocab_perm.nodup_iff.2 C14_nodup

private theorem seg_at (pre seg post : List String) (off : Nat) (hv : vocab = pre ++ seg ++ post) (hoff : pre.length = off)
    (i : Nat) (h : i < seg.length) : vocab[off + i]? = seg[i]? := by
  rw [hv, ← hoff]; exact getElem?_append3 pre seg post i h

private theorem range_map_getElem? {α} (f : Nat → α) (n i : Nat) (h : i < n) : ((List.range n).map f)[i]? = some (f i) := by
  simp [h]

/-- every position of `VOCAB_LIST` in closed form: special tokens at 0..10, the `_VOCAB_FIELDS` table at 11.., `+i` at `64+i`,
    `i` at `320+i`, `-(256-i)` at `448+i`, `<RESERVE_i>` at position `i` itself, and the `k`-th corner-first coordinate of the
    50×50 grid at `1596+k` -/
theorem C14_layout : Layout := by
  have hv := vocab_eq_segments
  refine ⟨hv, ?_, ?_, ?_, ?_, ?_, ?_, ?_, ?_, ?_⟩
  · intro i hi
    have := seg_at [] specials (headTokens ++ utTokens) 0 (by simp [vocab]) rfl i (by rw [length_specials]; exact hi)
    simpa [specials] using this
  · intro i hi
    have := seg_at specials headTokens utTokens 11 rfl length_specials i (by rw [length_headTokens]; exact hi)
    simpa [headTokens] using this
  · intro i hi
    exact seg_at specials litsA (segPlus ++ segCTT ++ segNeg ++ litsB ++ segRes ++ utTokens) 11
      (by simp only [hv, List.append_assoc]) length_specials i (by rw [length_litsA]; exact hi)
  · intro i hi
    have := seg_at (specials ++ litsA) segPlus (segCTT ++ segNeg ++ litsB ++ segRes ++ utTokens) 64
      (by simp only [hv, List.append_assoc]) (by simp [length_specials, length_litsA]) i (by rw [length_segPlus]; exact hi)
    rw [this, segPlus, range_map_getElem? _ _ _ hi]
  · intro i hi
    have := seg_at (specials ++ litsA ++ segPlus) segCTT (segNeg ++ litsB ++ segRes ++ utTokens) 320
      (by simp only [hv, List.append_assoc]) (by simp [length_specials, length_litsA, length_segPlus]) i
      (by rw [length_segCTT]; exact hi)
    rw [this, segCTT, range_map_getElem? _ _ _ hi]
  · intro i hi
    have := seg_at (specials ++ litsA ++ segPlus ++ segCTT) segNeg (litsB ++ segRes ++ utTokens) 448
      (by simp only [hv, List.append_assoc]) (by simp [length_specials, length_litsA, length_segPlus, length_segCTT]) i
      (by rw [length_segNeg]; exact hi)
    rw [this, segNeg, range_map_getElem? _ _ _ hi]
  · intro i hi
    exact seg_at (specials ++ litsA ++ segPlus ++ segCTT ++ segNeg) litsB (segRes ++ utTokens) 704
      (by simp only [hv, List.append_assoc])
      (by simp [length_specials, length_litsA, length_segPlus, length_segCTT, length_segNeg]) i (by rw [length_litsB]; exact hi)
  · intro i h1 h2
    have := seg_at (specials ++ litsA ++ segPlus ++ segCTT ++ segNeg ++ litsB) segRes utTokens 708
      (by simp only [hv])
      (by simp [length_specials, length_litsA, length_segPlus, length_segCTT, length_segNeg, length_litsB]) (i - 708)
      (by rw [length_segRes]; omega)
    rw [show 708 + (i - 708) = i by omega] at this
    rw [this, segRes, range_map_getElem? _ _ _ (by omega), show 708 + (i - 708) = i by omega]
  · intro k hk
    have := seg_at (specials ++ litsA ++ segPlus ++ segCTT ++ segNeg ++ litsB ++ segRes) utTokens [] 1596
      (by simp only [hv, List.append_nil])
      (by simp [length_specials, length_litsA, length_segPlus, length_segCTT, length_segNeg, length_litsB, length_segRes]) k
      (by rw [length_utTokens]; exact hk)
    rw [this, utTokens, utSize_eq, List.getElem?_map]

/-- the 68 literal tokens are exactly the published ones, in the published order (together with `C14_layout` this gives every one
    of the 4096 positions in closed form, independent of the source) -/
theorem C14_literals_pinned :
    specials = ["<ADJLIST_START>", "<ADJLIST_END>", "<TARGET_START>", "<TARGET_END>", "<ORIGIN_START>", "<ORIGIN_END>", "<PATH_START>", "<PATH_END>", "<-->", ";", "<PADDING>"] ∧
    litsA = ["(", ",", ")", "=", "||", ":", "THEN", "-", "<UNK>", "TARGET_A", "TARGET_B", "TARGET_C", "TARGET_D", "TARGET_E", "TARGET_F", "TARGET_G", "TARGET_H", "TARGET_I", "TARGET_J", "TARGET_K", "TARGET_L", "TARGET_M", "TARGET_N", "TARGET_O", "TARGET_P", "TARGET_Q", "TARGET_R", "TARGET_S", "TARGET_T", "TARGET_U", "TARGET_V", "TARGET_W", "TARGET_X", "TARGET_Y", "TARGET_Z", "TARGET_NORTH", "TARGET_SOUTH", "TARGET_EAST", "TARGET_WEST", "TARGET_NORTHEAST", "TARGET_NORTHWEST", "TARGET_SOUTHEAST", "TARGET_SOUTHWEST", "TARGET_CENTER", "NORTH", "SOUTH", "EAST", "WEST", "FORWARD", "BACKWARD", "LEFT", "RIGHT", "STAY"] ∧
    litsB = ["STEP", "ADJ_GROUP", "&", "<XX>"] := by decide

/-! ## token -> id map and codec, for every duplicate-free vocabulary list -/

private theorem mapInverse_of_nodup {voc : List String} (h : voc.Nodup) : MapInverse voc :=
  ⟨fun i hi => tokenToIndex_getElem h i hi, fun _ _ hq => getElem?_of_tokenToIndex hq, fun _ => tokenToIndex_none⟩

private theorem decode_natCast (voc : List String) (ns : List Nat) :
    decode voc (ns.map Int.ofNat) = decodeNonneg voc (ns.map Int.ofNat) := by
  have : (ns.map Int.ofNat).any (fun i => decide (i < 0)) = false := by
    rw [List.any_eq_false]; intro i hi
    obtain ⟨n, _, rfl⟩ := List.mem_map.mp hi
    simp
  simp [decode, this]

private theorem decode_encode {voc : List String} : ∀ {ts : List String} {ns : List Nat},
    encode voc ts = .ok ns → decodeNonneg voc (ns.map Int.ofNat) = .ok ts ∧ ns.length = ts.length ∧ ∀ i ∈ ns, i < voc.length
  | [], ns, h => by simp [encode] at h; subst h; simp [decodeNonneg]
  | t :: ts, ns, h => by
    unfold encode at h
    split at h
    · cases h
    next i hi =>
      split at h
      next r hr =>
        cases h
        have ih := decode_encode hr
        have hget := getElem?_of_tokenToIndex hi
        have hlt : i < voc.length := by
          by_cases hh : i < voc.length
          · exact hh
          · rw [List.getElem?_eq_none (by omega)] at hget; cases hget
        have htn : (Int.ofNat i).toNat = i := rfl
        refine ⟨?_, by simp [ih.2.1], ?_⟩
        · simp only [List.map_cons, decodeNonneg, htn, hget, ih.1]
        · intro j hj
          rcases List.mem_cons.mp hj with rfl | hj'
          · exact hlt
          · exact ih.2.2 j hj'
      · cases h

private theorem encode_decodeNonneg {voc : List String} (hn : voc.Nodup) : ∀ {ids : List Int} {ts : List String},
    (∀ i ∈ ids, 0 ≤ i) → decodeNonneg voc ids = .ok ts →
      encode voc ts = .ok (ids.map Int.toNat) ∧ ts.length = ids.length ∧ ∀ t ∈ ts, t ∈ voc
  | [], ts, _, h => by simp [decodeNonneg] at h; subst h; simp [encode]
  | i :: is, ts, hnn, h => by
    unfold decodeNonneg at h
    split at h
    · cases h
    next t ht =>
      split at h
      next r hr =>
        cases h
        have ih := encode_decodeNonneg hn (fun j hj => hnn j (List.mem_cons_of_mem _ hj)) hr
        have hlt : i.toNat < voc.length := by
          by_cases hh : i.toNat < voc.length
          · exact hh
          · rw [List.getElem?_eq_none (by omega)] at ht; cases ht
        have hte : voc[i.toNat] = t := by
          rw [List.getElem?_eq_getElem hlt] at ht; exact Option.some.inj ht
        have hidx : tokenToIndex voc t = some i.toNat := hte ▸ tokenToIndex_getElem hn i.toNat hlt
        refine ⟨by simp [encode, hidx, ih.1], by simp [ih.2.1], ?_⟩
        intro u hu
        rcases List.mem_cons.mp hu with rfl | hu'
        · exact hte ▸ List.getElem_mem hlt
        · exact ih.2.2 u hu'
      · cases h

private theorem map_ofNat_toNat : ∀ {ids : List Int}, (∀ i ∈ ids, 0 ≤ i) → (ids.map Int.toNat).map Int.ofNat = ids
  | [], _ => rfl
  | i :: is, h => by
    have h0 := h i List.mem_cons_self
    have ih := map_ofNat_toNat (ids := is) (fun j hj => h j (List.mem_cons_of_mem _ hj))
    simp only [List.map_cons, ih]
    congr 1
    show ((i.toNat : Nat) : Int) = i
    omega

private theorem codecOK_of_nodup {voc : List String} (hn : voc.Nodup) : CodecOK voc := by
  refine ⟨?_, ?_, fun ts h => encode_error h, fun ids h => decode_error h⟩
  · intro ts hall
    obtain ⟨ids, he, _, _⟩ := encode_ok hall
    have hd := decode_encode he
    exact ⟨ids, he, hd.2.1, hd.2.2, by rw [decode_natCast]; exact hd.1⟩
  · intro ids hall
    obtain ⟨ts, hd, hl, _⟩ := decode_ok hall
    have hany : ids.any (fun i => decide (i < 0)) = false := by
      rw [List.any_eq_false]; intro i hi; have := (hall i hi).1; simp; omega
    have hd' : decodeNonneg voc ids = .ok ts := by simpa [decode, hany] using hd
    have he := encode_decodeNonneg hn (fun i hi => (hall i hi).1) hd'
    exact ⟨ts, hd, hl, he.2.2, ids.map Int.toNat, he.1, map_ofNat_toNat (fun i hi => (hall i hi).1)⟩

/-- `VOCAB_TOKEN_TO_INDEX` is the inverse of `VOCAB_LIST`: position `i` holds the token whose id is `i`, and only tokens of
    the list have an id — so a token's id is its fixed position in the layout of `C14_layout` -/
theorem C14_map_inverse : MapInverse vocab := mapInverse_of_nodup vocab_nodup

/-- `MazeTokenizerModular.encode/decode`: for ALL token sequences over the vocabulary and ALL id sequences in `[0, 4096)` the
    two are mutual inverses; any sequence containing an unknown token, a negative id or an id ≥ 4096 gives `TokenError` -/
theorem C14_codec : CodecOK vocab := codecOK_of_nodup vocab_nodup

/-- an id is valid exactly when it is a position of the list -/
theorem C14_decode_total (ids : List Int) :
    (∃ ts, decode vocab ids = .ok ts) ↔ (∀ i ∈ ids, 0 ≤ i ∧ i < 4096) := by
  constructor
  · intro ⟨ts, h⟩ i hi
    by_cases hb : 0 ≤ i ∧ i < 4096
    · exact hb
    · have := decode_error (voc := vocab) ⟨i, hi, by rw [length_vocab]; omega⟩
      rw [this] at h; cases h
  · intro h
    obtain ⟨ts, hd, _⟩ := decode_ok (voc := vocab) (fun i hi => by rw [length_vocab]; exact h i hi)
    exact ⟨ts, hd⟩

/-! ## corner-first ordering -/

/-- `corner_first_ndindex(n)` is a rearrangement of `np.ndindex(n, n)` sorted by the Python key, and — being a STABLE sort of
    lexicographically ordered input — it is exactly the sort by the total key `(python key, x)`; for all `n` -/
theorem C14_cornerFirst_spec (n : Nat) :
    cornerFirst n ~ ndindex n ∧ (cornerFirst n).Pairwise (fun a b => keyLeP a b) ∧
    cornerFirst n = (ndindex n).mergeSort totLe ∧ (cornerFirst n).Nodup ∧ (cornerFirst n).length = n * n :=
  ⟨cornerFirst_perm n, (List.pairwise_mergeSort keyLe_trans keyLe_total _).imp keyLe_iff.mp,
   cornerFirst_eq_totalSort n, nodup_cornerFirst n, length_cornerFirst n⟩

/-- for ALL `n ≤ m` (not only ≤ 50): the ordering for size `n` is a prefix of the ordering for size `m`; equivalently the first
    `n²` entries of the larger one -/
theorem C14_prefix (n m : Nat) (h : n ≤ m) :
    cornerFirst n <+: cornerFirst m ∧ cornerFirst n = (cornerFirst m).take (n * n) := by
  have hp := cornerFirst_prefix h
  refine ⟨hp, ?_⟩
  have := List.prefix_iff_eq_take.mp hp
  rwa [length_cornerFirst] at this

/-- the executable checker the driver runs on the REAL output of `corner_first_ndindex(n)` accepts exactly the model's list -/
theorem C14_cornerSpec (n : Nat) (l : List P) : cornerSpecOK n l = true ↔ l = cornerFirst n := cornerSpecOK_iff n l

/-- what is appended when the grid grows by one is exactly the new shell `max(x, y) = n` -/
theorem C14_shell (n : Nat) : ∀ x ∈ (cornerFirst (n + 1)).drop (n * n), max x.1 x.2 = n := cornerFirst_drop_shell n

/-! ## legacy tokenizers: all three modes, every `max_grid_size` -/

private theorem specials_nodup : specials.Nodup := by
  have := lits_nodup
  rw [List.append_assoc] at this
  exact (List.nodup_append.mp this).1

private theorem specials_cls : ∀ t ∈ specials, scls t = 0 := fun t ht =>
  lits_cls t (List.mem_append_left _ (List.mem_append_left _ ht))

private theorem indexedHead_nodup : (specials ++ ["(", ",", ")"]).Nodup := by decide +kernel
private theorem indexedHead_cls : ∀ t ∈ specials ++ ["(", ",", ")"], scls t = 0 := by decide +kernel

private theorem tokenArr_ut (m : Mode) (hm : m ≠ .indexed) (n : Nat) :
    tokenArr m n = specials ++ (modeCoords m n).map coordToken := by
  cases m <;> first | rfl | exact absurd rfl hm

private theorem modeCoords_nodup (m : Mode) (n : Nat) : (modeCoords m n).Nodup := by
  cases m
  · exact nodup_ndindex n
  · exact nodup_cornerFirst n
  · exact List.nodup_nil

/-- `token_arr` has no duplicates, for every mode and every `max_grid_size` (unbounded) -/
theorem C14_legacy_nodup (m : Mode) (n : Nat) : (tokenArr m n).Nodup := by
  by_cases hm : m = .indexed
  · subst hm
    show (specials ++ (["(", ",", ")"] ++ (List.range n).map Nat.repr)).Nodup
    rw [← List.append_assoc]
    refine nodup_append_of_cls scls 0 indexedHead_nodup
      (nodup_map_of_injective (fun _ _ h => Nat.repr_injective h) List.nodup_range) indexedHead_cls ?_
    intro t ht
    obtain ⟨i, _, rfl⟩ := List.mem_map.mp ht
    rw [scls_natRepr]; decide
  · rw [tokenArr_ut m hm]
    refine nodup_append_of_cls scls 0 specials_nodup (coordTokens_nodup (modeCoords_nodup m n)) specials_cls ?_
    intro t ht
    rw [coordTokens_cls t ht]; decide

/-- `tokenizer_map` is the inverse of `token_arr`, for every mode and size -/
theorem C14_legacy_map_inverse (m : Mode) (n : Nat) : MapInverse (tokenArr m n) :=
  mapInverse_of_nodup (C14_legacy_nodup m n)

/-- legacy `encode`/`decode` are mutual inverses on `token_arr` and reject everything else with `TokenError` -/
theorem C14_legacy_codec (m : Mode) (n : Nat) : CodecOK (tokenArr m n) :=
  codecOK_of_nodup (C14_legacy_nodup m n)

/-- the rasterized mode lists the special tokens and then the coordinates in row-major order: `(i, j)` has id `11 + i·n + j` -/
theorem C14_rasterized_row_major (n i j : Nat) (hi : i < n) (hj : j < n) :
    (tokenArr .rasterized n)[11 + (i * n + j)]? = some (coordToken (i, j)) ∧
    tokenToIndex (tokenArr .rasterized n) (coordToken (i, j)) = some (11 + (i * n + j)) := by
  have h1 : (tokenArr .rasterized n)[11 + (i * n + j)]? = some (coordToken (i, j)) := by
    show (specials ++ (ndindex n).map coordToken)[11 + (i * n + j)]? = _
    rw [List.getElem?_append_right (by rw [length_specials]; omega), length_specials,
      show 11 + (i * n + j) - 11 = i * n + j by omega, List.getElem?_map, ndindex_getElem? n i j hi hj]
    rfl
  refine ⟨h1, ?_⟩
  obtain ⟨hlt, hget⟩ := List.getElem?_eq_some_iff.mp h1
  have := tokenToIndex_getElem (C14_legacy_nodup .rasterized n) _ hlt
  rwa [hget] at this

/-- in the corner-first mode the vocabulary for size `n` is a prefix of the vocabulary for EVERY larger size, so every token
    keeps its id when `max_grid_size` grows -/
theorem C14_uniform_prefix (n m : Nat) (h : n ≤ m) :
    tokenArr .uniform n <+: tokenArr .uniform m ∧
    ∀ t ∈ tokenArr .uniform n, tokenToIndex (tokenArr .uniform m) t = tokenToIndex (tokenArr .uniform n) t := by
  have hp : tokenArr .uniform n <+: tokenArr .uniform m := by
    show specials ++ (cornerFirst n).map coordToken <+: specials ++ (cornerFirst m).map coordToken
    rw [List.prefix_append_right_inj]
    exact (cornerFirst_prefix h).map _
  refine ⟨hp, fun t ht => ?_⟩
  obtain ⟨i, hi, rfl⟩ := List.mem_iff_getElem.mp ht
  rw [tokenToIndex_getElem (C14_legacy_nodup .uniform n) i hi]
  have hi' : i < (tokenArr .uniform m).length := Nat.lt_of_lt_of_le hi hp.length_le
  rw [hp.getElem hi]
  exact tokenToIndex_getElem (C14_legacy_nodup .uniform m) i hi'

/-- the coordinate tokens of the corner-first legacy vocabulary for any `n ≤ 50` are a prefix of the coordinate block of the
    modular vocabulary: legacy id `11 + k` ↔ modular id `1596 + k` -/
theorem C14_uniform_in_vocab (n : Nat) (h : n ≤ 50) (k : Nat) (hk : k < n * n) :
    vocab[1596 + k]? = (tokenArr .uniform n)[11 + k]? := by
  have hp := cornerFirst_prefix h
  have hkn : k < (cornerFirst n).length := by rw [length_cornerFirst]; exact hk
  have hk50 : k < 2500 := by
    have := hp.length_le; rw [length_cornerFirst, length_cornerFirst] at this; omega
  rw [C14_layout.2.2.2.2.2.2.2.2.2 k hk50]
  show _ = (specials ++ (cornerFirst n).map coordToken)[11 + k]?
  rw [List.getElem?_append_right (by rw [length_specials]; omega), length_specials, show 11 + k - 11 = k by omega,
    List.getElem?_map]
  have hk' : k < (cornerFirst 50).length := Nat.lt_of_lt_of_le hkn hp.length_le
  rw [List.getElem?_eq_getElem hkn, List.getElem?_eq_getElem hk', hp.getElem hkn]

/-! ## the full statement -/

theorem C14_full_holds : C14_full :=
  ⟨C14_length, C14_nodup, C14_layout, C14_map_inverse, C14_codec,
   fun m n => ⟨C14_legacy_nodup m n, C14_legacy_map_inverse m n, C14_legacy_codec m n⟩,
   fun n i j hi hj => (C14_rasterized_row_major n i j hi hj).1,
   fun n m h => (C14_prefix n m h).1, fun n m h => (C14_uniform_prefix n m h).1⟩

/-! ## non-vacuity: concrete instances -/

private theorem cornerFirst_eq_of (n : Nat) (L : List P) (hs : L.Pairwise (fun a b => totLe a b = true)) (hp : L ~ ndindex n) :
    cornerFirst n = L :=
  List.Perm.eq_of_pairwise (le := fun a b => totLe a b = true) (fun _ _ _ _ h1 h2 => totLe_antisymm h1 h2)
    (pairwise_totLe_cornerFirst n) hs ((cornerFirst_perm n).trans hp.symm)

/-- the docstring example of `corner_first_ndindex(3)`, ties `(0,1)/(1,0)`, `(0,2)/…` included -/
example : cornerFirst 3 = [(0, 0), (0, 1), (1, 0), (1, 1), (0, 2), (2, 0), (1, 2), (2, 1), (2, 2)] :=
  cornerFirst_eq_of 3 _ (by decide) (by decide)
example : keyLe (0, 1) (1, 0) = true ∧ keyLe (1, 0) (0, 1) = true ∧ (0, 1) ≠ ((1, 0) : P) := by decide
example : cornerSpecOK 2 [(0, 0), (0, 1), (1, 0), (1, 1)] = true ∧ cornerSpecOK 2 [(0, 0), (1, 0), (0, 1), (1, 1)] = false := by decide
example : cornerFirst 2 <+: cornerFirst 3 := (C14_prefix 2 3 (by decide)).1
private theorem vocab_10 : vocab[10]? = some "<PADDING>" := by rw [C14_layout.2.1 10 (by decide)]; decide
private theorem vocab_11 : vocab[11]? = some "(" := by rw [C14_layout.2.2.1 0 (by decide)]; decide
example : vocab[10]? = some "<PADDING>" ∧ vocab[11]? = some "(" := ⟨vocab_10, vocab_11⟩
/-- the two vocabulary models: a coordinate token sits at different positions, a head token at the same one -/
example : MZ.Gen.vocab[1598]? = some "(0,2)" ∧ vocab[1598]? = some "(1,0)" := gen_vocab_1598
example : "(0,2)" ∈ vocab ∧ "(1,0)" ∈ MZ.Gen.vocab :=
  ⟨(C14_vocab_models_agree.2.2.2.2.2.1 _).1 (List.mem_of_getElem? gen_vocab_1598.1),
   (C14_vocab_models_agree.2.2.2.2.2.1 _).2 (List.mem_of_getElem? gen_vocab_1598.2)⟩
example : MZ.Gen.vocab[10]? = some "<PADDING>" := by rw [C14_vocab_models_agree.2.2.2.2.1 10 (by decide)]; exact vocab_10
example : vocab[64 + 255]? = some ("+" ++ Nat.repr 255) := C14_layout.2.2.2.2.1 255 (by decide)
example : vocab[1000]? = some ("<RESERVE_" ++ Nat.repr 1000 ++ ">") := C14_layout.2.2.2.2.2.2.2.2.1 1000 (by decide) (by decide)
example : ∃ ids, encode vocab ["<PADDING>", "("] = .ok ids ∧ decode vocab (ids.map Int.ofNat) = .ok ["<PADDING>", "("] := by
  have hmem : ∀ t ∈ ["<PADDING>", "("], t ∈ vocab := by
    intro t ht
    rcases List.mem_cons.mp ht with rfl | ht'
    · exact List.mem_of_getElem? vocab_10
    · rcases List.mem_cons.mp ht' with rfl | h3
      · exact List.mem_of_getElem? vocab_11
      · cases h3
  obtain ⟨ids, he, _, _, hd⟩ := C14_codec.1 _ hmem
  exact ⟨ids, he, hd⟩
example : decode vocab [-1] = .error .tokenError := C14_codec.2.2.2 [-1] ⟨-1, by simp, Or.inl (by decide)⟩
example : decode vocab [4096] = .error .tokenError :=
  C14_codec.2.2.2 [4096] ⟨4096, by simp, Or.inr (by rw [C14_length]; decide)⟩
example : (tokenArr .rasterized 3)[11 + (1 * 3 + 2)]? = some (coordToken (1, 2)) :=
  (C14_rasterized_row_major 3 1 2 (by decide) (by decide)).1
example : (tokenArr .indexed 3).length = 17 := by simp [tokenArr, length_specials]
example : (tokenArr .indexed 3).Nodup ∧ (tokenArr .indexed 3)[14]? = some (Nat.repr 0) := ⟨C14_legacy_nodup _ _, by decide⟩
example : tokenToIndex vocab "<PADDING>" = some 10 := by
  have hlt : 10 < vocab.length := by rw [C14_length]; decide
  have h := C14_map_inverse.1 10 hlt
  have e : vocab[10]'hlt = "<PADDING>" := by
    have := vocab_10; rw [List.getElem?_eq_getElem hlt] at this; exact Option.some.inj this
  rw [e] at h
  exact h
example : tokenArr .uniform 2 <+: tokenArr .uniform 5 := (C14_uniform_prefix 2 5 (by decide)).1
example : vocab[1596 + 8]? = (tokenArr .uniform 3)[11 + 8]? := C14_uniform_in_vocab 3 (by decide) 8 (by decide)
example : ((cornerFirst 3).drop (2 * 2)).length = 5 := by simp [length_cornerFirst]
example : ∃ ts, decode vocab [0, 4095] = .ok ts :=
  (C14_decode_total [0, 4095]).mpr (by intro i hi; simp at hi; omega)
example : ∃ ts, decode (tokenArr .rasterized 2) [11, 14] = .ok ts ∧ ts.length = 2 := by
  obtain ⟨ts, h, hl, _⟩ := (C14_legacy_codec .rasterized 2).2.1 [11, 14] (by
    intro i hi
    have : (tokenArr .rasterized 2).length = 15 := by simp [tokenArr, modeCoords, length_specials, length_ndindex]
    simp at hi; omega)
  exact ⟨ts, h, hl⟩

end MZ.Vocab
