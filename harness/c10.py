"""C10 — pixel and ASCII renderings are faithful and invertible.

Correspondence: real LatticeMaze/TargetedLatticeMaze/SolvedMaze .as_pixels/.as_ascii/.from_pixels/.from_ascii vs. the Lean model
MZ.Pix (driver ops C10.maze / C10.read / C10.read_ascii), exact pixels, exact strings, exact read-back mazes or exception class.
Oracle (independent of the model, written from the property statement): a plain-Python renderer + the round-trip clause."""
from __future__ import annotations
import itertools, json, os, random, sys, time, warnings, zlib
from collections import deque
from pathlib import Path

RULE = ("every connection structure (all subsets of the in-grid wall slots) on every grid with <=6 cells incl. 1xk/kx1 (quick; thorough adds 2x4, 4x2 and 3x3), "
        "each as a LatticeMaze, as a TargetedLatticeMaze for every ordered start/end pair (quick: every third pair, thorough: every second), and as a SolvedMaze with a BFS shortest path (two tie-break orders) for "
        "every connected ordered pair, plus start=end cases; plus 200 (thorough 3000) sampled mazes up to 12x12 (random spanning trees with extra/removed edges, random densities, oblong) "
        "with shortest, non-shortest self-avoiding and deliberately broken solutions, plus arrays with bits on the last row/column, plus damaged images "
        "(extra/missing start, end and path pixels) read by all three classes. Every case: all four (show_endpoints, show_solution) pairs, pixels and ASCII, "
        "read back by all three classes from both. non-trivial = at least one connection or marker; distinct = distinct (shape, edges, kind, endpoints, solution); later additions: thin big grids, reading a picture twice (the image must be left alone), ASCII text surrounded by blank lines / indented / right-padded, serpentine mazes (solutions of 131+ cells)")
ASSUMPTIONS = ["numpy slicing / boolean-mask assignment / argwhere order behave as documented (validated on every case by exact comparison)",
               "mazes are built through the public constructors (endpoints in the grid); solutions are non-empty",
               "from_pixels is modelled for odd x odd RGB images (every image as_pixels can produce); binary 2-D input goes through _from_pixel_grid_bw only"]
TRUSTED = ["str.join/strip/split are modelled on lists of characters (joinLines/strip/splitLines), compared with the real strings on every case",
           "the round trip with the ASCII text is proved on the text itself (C10_roundtrip_ascii: join, strip, split, per-line strip and np.array of the rows, on the list-of-characters model above)"]

EXC = {"ValueError": "ValueError", "AssertionError": "AssertionError", "IndexError": "IndexError"}
COMBOS = [(True, True), (True, False), (False, False), (False, True)]
KINDS = ["lattice", "targeted", "solved"]


def _exc(e):
    return EXC.get(type(e).__name__, "other")


# ------------------------------------------------------------------------------------------------
# real code
# ------------------------------------------------------------------------------------------------
def _mods():
    import numpy as np
    from maze_dataset.maze import lattice_maze as LM
    return np, LM


def _cl(case):
    np, LM = _mods()
    cl = np.zeros((2, case["rows"], case["cols"]), dtype=np.bool_)
    for d, i, j in case["edges"]:
        cl[d, i, j] = True
    return cl


def _real_maze(case):
    np, LM = _mods()
    cl = _cl(case)
    if case["kind"] == "lattice":
        return LM.LatticeMaze(connection_list=cl)
    if case["kind"] == "targeted":
        return LM.TargetedLatticeMaze(connection_list=cl, start_pos=np.array(case["start"]), end_pos=np.array(case["end"]))
    return LM.SolvedMaze(connection_list=cl, solution=np.array(case["solution"]))


def _code_img(arr):
    np, LM = _mods()
    a = arr.astype(np.int64)
    return (a[..., 0] * 65536 + a[..., 1] * 256 + a[..., 2]).tolist()


def _canon_maze(m):
    np, LM = _mods()
    cl = np.asarray(m.connection_list)
    out = dict(kind={"LatticeMaze": "lattice", "TargetedLatticeMaze": "targeted", "SolvedMaze": "solved"}.get(type(m).__name__, type(m).__name__),
               rows=int(cl.shape[1]), cols=int(cl.shape[2]), edges=[[int(d), int(i), int(j)] for d, i, j in np.argwhere(cl)])
    if out["kind"] == "targeted":
        out["start"] = [int(x) for x in m.start_pos]; out["end"] = [int(x) for x in m.end_pos]
    if out["kind"] == "solved":
        out["solution"] = [[int(x) for x in c] for c in m.solution]
        # SolvedMaze keeps start/end = first/last of the solution; anything else is reported as part of the canonical form
        if [int(x) for x in m.start_pos] != out["solution"][0] or [int(x) for x in m.end_pos] != out["solution"][-1]:
            out["endpoints_mismatch"] = [[int(x) for x in m.start_pos], [int(x) for x in m.end_pos]]
    return out


def _cls(kind):
    np, LM = _mods()
    return dict(lattice=LM.LatticeMaze, targeted=LM.TargetedLatticeMaze, solved=LM.SolvedMaze)[kind]


def _try(f):
    try:
        return dict(ok=f())
    except Exception as e:  # noqa: BLE001 — the class is the observation
        return dict(err=_exc(e))


def _impl_renders(case):
    """same structure as the driver's reply to C10.maze, computed with the real code"""
    np, LM = _mods()
    m = _real_maze(case)
    outs = []
    for se, ss in COMBOS:
        raw = {}
        def px():
            raw["px"] = m.as_pixels(show_endpoints=se, show_solution=ss)
            return _code_img(raw["px"])
        def asc():
            raw["asc"] = m.as_ascii(show_endpoints=se, show_solution=ss)
            return raw["asc"]
        p, a = _try(px), _try(asc)
        kinds = KINDS if case.get("allreads") else [case["kind"]]
        reads = None if "err" in p else {k: _try(lambda k=k: _canon_maze(_cls(k).from_pixels(raw["px"].copy()))) for k in kinds}
        reads_a = None if "err" in a else {k: _try(lambda k=k: _canon_maze(_cls(k).from_ascii(raw["asc"]))) for k in kinds}
        kept = None
        if "err" not in p:
            # reading must not consume the picture: ONE array read twice, and compared with the picture afterwards
            img = raw["px"].copy()
            r1 = _try(lambda: _canon_maze(_cls(case["kind"]).from_pixels(img)))
            same = bool(np.array_equal(img, raw["px"]))
            r2 = _try(lambda: _canon_maze(_cls(case["kind"]).from_pixels(img)))
            kept = dict(image_unchanged=same, second_read_same=(r1 == r2))
        if "err" not in a and kept is not None and reads_a is not None:
            # the text as it comes out of a file or a docstring: blank lines around it, every line indented and right-padded
            padded = "\n \n" + "\n".join("   " + ln + "  " for ln in raw["asc"].split("\n")) + "\n\n"
            kept["padded_text_same"] = _try(lambda: _canon_maze(_cls(case["kind"]).from_ascii(padded))) == reads_a.get(case["kind"])
        outs.append(dict(se=se, ss=ss, pixels=p, ascii=a, reads=reads, reads_ascii=reads_a, kept=kept))
    return outs


# ------------------------------------------------------------------------------------------------
# independent oracle (from the property statement; no model, no code under test)
# ------------------------------------------------------------------------------------------------
def _colors():
    np, LM = _mods()
    P, A = LM.PixelColors, LM.AsciiChars
    code = lambda c: c[0] * 65536 + c[1] * 256 + c[2]
    col = dict(WALL=code(P.WALL), OPEN=code(P.OPEN), START=code(P.START), END=code(P.END), PATH=code(P.PATH))
    ch = {col["WALL"]: A.WALL, col["OPEN"]: A.OPEN, col["START"]: A.START, col["END"]: A.END, col["PATH"]: A.PATH}
    return col, ch


def _connected(conn, a, b):
    """are lattice neighbours a, b joined?  dim 0 = edge to (row+1, col), dim 1 = edge to (row, col+1), stored at the smaller cell"""
    lo, hi = (a, b) if a <= b else (b, a)
    d = 0 if hi[0] == lo[0] + 1 else 1
    return (d, lo[0], lo[1]) in conn


def _expected_image(case, se, ss, col):
    r, c = case["rows"], case["cols"]
    H, W = 2 * r + 1, 2 * c + 1
    conn = {tuple(e) for e in case["edges"]}
    img = [[col["WALL"]] * W for _ in range(H)]
    for i in range(r):
        for j in range(c):
            img[2 * i + 1][2 * j + 1] = col["OPEN"]
            for b in ((i + 1, j), (i, j + 1)):
                if b[0] < r and b[1] < c and _connected(conn, (i, j), b):
                    img[i + b[0] + 1][j + b[1] + 1] = col["OPEN"]
    if case["kind"] == "solved" and ss:
        sol = case["solution"]
        for a in sol:
            img[2 * a[0] + 1][2 * a[1] + 1] = col["PATH"]
        for a, b in zip(sol, sol[1:]):
            img[a[0] + b[0] + 1][a[1] + b[1] + 1] = col["PATH"]
    if case["kind"] != "lattice" and se:
        s, e = _ends(case)
        img[2 * s[0] + 1][2 * s[1] + 1] = col["START"]
        img[2 * e[0] + 1][2 * e[1] + 1] = col["END"]
    return img


def _ends(case):
    if case["kind"] == "targeted":
        return case["start"], case["end"]
    return case["solution"][0], case["solution"][-1]


def _bfs_dist(case, s, e):
    r, c = case["rows"], case["cols"]
    conn = {tuple(x) for x in case["edges"]}
    dist = {tuple(s): 0}
    q = deque([tuple(s)])
    while q:
        a = q.popleft()
        for b in ((a[0] + 1, a[1]), (a[0] - 1, a[1]), (a[0], a[1] + 1), (a[0], a[1] - 1)):
            if 0 <= b[0] < r and 0 <= b[1] < c and b not in dist and _connected(conn, a, b):
                dist[b] = dist[a] + 1; q.append(b)
    return dist.get(tuple(e))


def _valid_solution(case):
    """in grid, consecutive cells joined"""
    sol = case["solution"]; r, c = case["rows"], case["cols"]
    conn = {tuple(x) for x in case["edges"]}
    if not all(0 <= a[0] < r and 0 <= a[1] < c for a in sol):
        return False
    return all(abs(a[0] - b[0]) + abs(a[1] - b[1]) == 1 and _connected(conn, tuple(a), tuple(b)) for a, b in zip(sol, sol[1:]))


def _oracle(case, renders):
    """list of violated clauses (strings) of the C10 statement on the real outputs `renders`"""
    if case.get("claim") is False:
        return []
    col, ch = _colors()
    bad = []
    if len(set(col.values())) < 5 or len(set(ch.values())) < 5:
        return [f"PixelColors / AsciiChars are not pairwise distinct ({col}, {sorted(ch.values())}): a picture no longer determines walls, endpoints and path"]
    kind = case["kind"]
    valid_sol = kind != "solved" or _valid_solution(case)
    if not valid_sol:
        return []
    for rd in renders:
        se, ss = rd["se"], rd["ss"]
        tag = f"show_endpoints={se}, show_solution={ss}"
        if ss and not se:
            if rd["pixels"] != dict(err="ValueError"):
                bad.append(f"as_pixels({tag}) must be rejected with ValueError, got {str(rd['pixels'])[:80]}")
            continue
        exp = _expected_image(case, se, ss, col)
        if "err" in rd["pixels"]:
            bad.append(f"as_pixels({tag}) raised {rd['pixels']['err']} on a valid maze"); continue
        got = rd["pixels"]["ok"]
        if len(got) != len(exp) or any(len(row) != len(exp[0]) for row in got):
            bad.append(f"as_pixels({tag}) has size {len(got)}x{len(got[0]) if got else 0}, expected {len(exp)}x{len(exp[0])}"); continue
        diff = [(x, y) for x in range(len(exp)) for y in range(len(exp[0])) if got[x][y] != exp[x][y]]
        if diff:
            x, y = diff[0]
            H, W = len(exp), len(exp[0])
            where = ("border" if x in (0, H - 1) or y in (0, W - 1) else "cell pixel" if x % 2 == 1 and y % 2 == 1
                     else "corner pixel" if x % 2 == 0 and y % 2 == 0 else "between-cells pixel")
            bad.append(f"as_pixels({tag}): {where} ({x},{y}) is {got[x][y]:06x}, the statement requires {exp[x][y]:06x} ({len(diff)} pixels differ)")
            continue
        exp_txt = "\n".join("".join(ch[p] for p in row) for row in exp)
        if rd["ascii"] != dict(ok=exp_txt):
            bad.append(f"as_ascii({tag}) is not the pixel picture character for character: got {str(rd['ascii'])[:200]!r} expected {exp_txt!r}")
            continue
        # ---- round trip (same kind) ----
        want = None
        if kind == "lattice":
            want = dict(kind="lattice", rows=case["rows"], cols=case["cols"], edges=sorted(case["edges"]))
        elif kind == "targeted" and se and case["start"] != case["end"]:
            want = dict(kind="targeted", rows=case["rows"], cols=case["cols"], edges=sorted(case["edges"]), start=case["start"], end=case["end"])
        elif kind == "solved" and se and ss and case["solution"][0] != case["solution"][-1]:
            d = _bfs_dist(case, case["solution"][0], case["solution"][-1])
            if d is not None and d == len(case["solution"]) - 1:
                want = dict(kind="solved", rows=case["rows"], cols=case["cols"], edges=sorted(case["edges"]), solution=case["solution"])
        if rd.get("kept") and rd["kept"].get("padded_text_same") is False:
            bad.append(f"from_ascii on as_ascii({tag}) surrounded by blank lines, indented and right-padded does not give what the bare text gives")
        if rd.get("kept") and not (rd["kept"]["image_unchanged"] and rd["kept"]["second_read_same"]):
            bad.append(f"from_pixels on the picture as_pixels({tag}) returned {'changed the caller\'s image in place' if not rd['kept']['image_unchanged'] else 'left the image alone'}"
                       f"{'' if rd['kept']['second_read_same'] else '; a second read of the same array gives another answer'}: the image no longer is the maze's picture")
        if want is not None:
            for src in ("reads", "reads_ascii"):
                got_r = rd[src][kind]
                if "ok" in got_r:
                    g = dict(got_r["ok"]); g["edges"] = sorted(g["edges"])
                else:
                    g = got_r
                if g != want:
                    bad.append(f"{'from_pixels' if src == 'reads' else 'from_ascii'}(as_{'pixels' if src == 'reads' else 'ascii'}({tag})) of a {kind} maze "
                               f"does not return the maze: got {str(g)[:300]} expected {str(want)[:300]}")
    return bad


# ------------------------------------------------------------------------------------------------
# case generation
# ------------------------------------------------------------------------------------------------
def _slots(r, c, wf=True):
    out = []
    for i in range(r):
        for j in range(c):
            if i + 1 < r or not wf: out.append([0, i, j])
    for i in range(r):
        for j in range(c):
            if j + 1 < c or not wf: out.append([1, i, j])
    return out


def _bfs_path(rows, cols, conn, s, e, order):
    """one shortest path s -> e (None if unreachable); `order` = neighbour order used for tie-breaking"""
    prev = {s: None}
    q = deque([s])
    while q:
        a = q.popleft()
        if a == e: break
        for dx, dy in order:
            b = (a[0] + dx, a[1] + dy)
            if 0 <= b[0] < rows and 0 <= b[1] < cols and b not in prev and _connected(conn, a, b):
                prev[b] = a; q.append(b)
    if e not in prev: return None
    p = [e]
    while prev[p[-1]] is not None: p.append(prev[p[-1]])
    return [list(x) for x in reversed(p)]


ORD1 = ((0, 1), (0, -1), (1, 0), (-1, 0))
ORD2 = ((-1, 0), (1, 0), (0, -1), (0, 1))


def _cases_for_structure(r, c, edges, pairs=None, rng=None, max_pairs=None, targeted_stride=1):
    """lattice + targeted (all ordered pairs) + solved with shortest paths (connected ordered pairs, 2 tie-break orders) + start=end"""
    conn = {tuple(e) for e in edges}
    base = dict(rows=r, cols=c, edges=edges)
    yield dict(base, kind="lattice")
    cells = [(i, j) for i in range(r) for j in range(c)]
    allp = [(s, e) for s in cells for e in cells] if pairs is None else pairs
    if max_pairs is not None and len(allp) > max_pairs:
        allp = rng.sample(allp, max_pairs)
    for k, (s, e) in enumerate(allp):
        if (k + len(edges)) % targeted_stride == 0 or s == e:
            yield dict(base, kind="targeted", start=list(s), end=list(e))
        if s == e:
            yield dict(base, kind="solved", solution=[list(s)])
            continue
        p1 = _bfs_path(r, c, conn, s, e, ORD1)
        if p1 is None: continue
        yield dict(base, kind="solved", solution=p1)
        p2 = _bfs_path(r, c, conn, s, e, ORD2)
        if p2 != p1:
            yield dict(base, kind="solved", solution=p2)


def _exhaustive(shapes, stride=1, offset=0, targeted_stride=1):
    k = 0
    for r, c in shapes:
        sl = _slots(r, c)
        for bits in range(1 << len(sl)):
            k += 1
            if (k + offset) % stride: continue
            edges = [sl[t] for t in range(len(sl)) if bits >> t & 1]
            yield from _cases_for_structure(r, c, edges, targeted_stride=targeted_stride)


def _random_structure(rng, r, c):
    """random spanning tree (randomised DFS) with edges added/removed, or plain random density"""
    sl = _slots(r, c)
    mode = rng.choice(["tree", "tree+", "tree-", "dens"])
    if mode == "dens" or not sl:
        p = rng.choice([0.1, 0.3, 0.5, 0.7, 0.9, 1.0])
        return [e for e in sl if rng.random() < p], mode
    seen, edges = {(rng.randrange(r), rng.randrange(c))}, set()
    stack = list(seen)
    while stack:
        a = stack[-1]
        nb = [(a[0] + dx, a[1] + dy) for dx, dy in ORD1]
        nb = [b for b in nb if 0 <= b[0] < r and 0 <= b[1] < c and b not in seen]
        if not nb: stack.pop(); continue
        b = rng.choice(nb); seen.add(b); stack.append(b)
        lo, hi = min(a, b), max(a, b)
        edges.add((0 if hi[0] == lo[0] + 1 else 1, lo[0], lo[1]))
    if mode == "tree+":
        q = rng.choice([0.05, 0.15, 0.4])
        edges |= {tuple(e) for e in sl if rng.random() < q}
    if mode == "tree-":
        edges = {e for e in edges if rng.random() > 0.15}
    return [e for e in sl if tuple(e) in edges], mode


def _random_walk_solution(rng, r, c, conn, s, maxlen):
    """self-avoiding walk through open connections (usually not a shortest path)"""
    p = [s]
    while len(p) < maxlen:
        a = p[-1]
        nb = [(a[0] + dx, a[1] + dy) for dx, dy in ORD1]
        nb = [b for b in nb if 0 <= b[0] < r and 0 <= b[1] < c and b not in p and _connected(conn, a, b)]
        if not nb: break
        p.append(rng.choice(nb))
    return [list(x) for x in p]


def _sampled(rng, n, maxdim=12):
    for _ in range(n):
        r, c = rng.randint(1, maxdim), rng.randint(1, maxdim)
        if rng.random() < 0.3: r = c
        edges, mode = _random_structure(rng, r, c)
        conn = {tuple(e) for e in edges}
        cells = [(i, j) for i in range(r) for j in range(c)]
        pairs = [(rng.choice(cells), rng.choice(cells)) for _ in range(4)]
        for cs in _cases_for_structure(r, c, edges, pairs=pairs):
            cs["tag"] = mode; yield cs
        # non-shortest, self-avoiding solution: property makes no round-trip claim, the model must still agree with the code
        s = rng.choice(cells)
        w = _random_walk_solution(rng, r, c, conn, s, rng.randint(2, 3 * (r + c)))
        yield dict(rows=r, cols=c, edges=edges, kind="solved", solution=w, tag="walk")
        # deliberately broken solutions (jump, out of range, negative): no claim, correspondence only
        if rng.random() < 0.3 and len(w) >= 2 and r * c >= 4:
            brk = [list(x) for x in w]
            how = rng.choice(["jump", "oob", "neg"])
            k = rng.randrange(1, len(brk)) if len(brk) > 2 else 1
            if how == "jump":
                far = [x for x in cells if abs(x[0] - brk[k - 1][0]) + abs(x[1] - brk[k - 1][1]) != 1]
                brk[k:] = [list(rng.choice(far))] + brk[k:]
                brk[-1] = brk[-1] if 0 <= brk[-1][0] < r else brk[0]
            elif how == "oob" and len(brk) > 2:
                brk[k if k < len(brk) - 1 else 1] = [r, rng.randrange(c)]
            elif how == "neg" and len(brk) > 2:
                brk[k if k < len(brk) - 1 else 1] = [-1, rng.randrange(c)]
            yield dict(rows=r, cols=c, edges=edges, kind="solved", solution=brk, tag="broken:" + how, claim=False)
        # bits on the last row / column (not produced by any generator): no claim, correspondence only
        if rng.random() < 0.15:
            extra = [e for e in _slots(r, c, wf=False) if e not in _slots(r, c) and rng.random() < 0.5]
            if extra:
                e2 = sorted(edges + extra)
                yield dict(rows=r, cols=c, edges=e2, kind="lattice", tag="nonwf", claim=False)
                s, e = rng.choice(cells), rng.choice(cells)
                yield dict(rows=r, cols=c, edges=e2, kind="targeted", start=list(s), end=list(e), tag="nonwf", claim=False)


def _big(rng, shapes):
    """grids whose pixel coordinates pass 127 / 255 (2*64+1 = 129, 2*128+1 = 257): narrow integer arithmetic shows here"""
    for r, c in shapes:
        edges, mode = _random_structure(rng, r, c)
        cells = [(0, 0), (r - 1, c - 1), (r - 1, 0), (0, c - 1), (rng.randrange(r), rng.randrange(c))]
        pairs = [(cells[0], cells[1]), (cells[2], cells[3]), (cells[4], cells[1])]
        for cs in _cases_for_structure(r, c, edges, pairs=pairs):
            cs["tag"] = "big:" + mode; yield cs


def _serpentines(shapes):
    """one corridor through (nearly) every cell, solved end to end: the LONGEST shortest paths a grid can have (131+ cells from 11x12 on) —
    counters of path position kept in narrow integers show here, nowhere else"""
    for r, c in shapes:
        order = [(i, j) for i in range(r) for j in (range(c) if i % 2 == 0 else range(c - 1, -1, -1))]
        edges = []
        for (a, b), (a2, b2) in zip(order, order[1:]):
            edges.append([0, min(a, a2), b] if b == b2 else [1, a, min(b, b2)])
        edges = sorted(edges)
        for sol in (order, order[::-1], order[3:], order[: len(order) - 2]):
            yield dict(rows=r, cols=c, edges=edges, kind="solved", solution=[list(x) for x in sol], tag="serpentine")
        yield dict(rows=r, cols=c, edges=edges, kind="targeted", start=list(order[0]), end=list(order[-1]), tag="serpentine")


def _damaged_images(rng, n):
    """read requests on images that as_pixels cannot produce: markers added / removed / moved (all three classes)"""
    np, LM = _mods()
    col, _ = _colors()
    out = []
    for _ in range(n):
        r, c = rng.randint(1, 5), rng.randint(1, 5)
        edges, _m = _random_structure(rng, r, c)
        conn = {tuple(e) for e in edges}
        cells = [(i, j) for i in range(r) for j in range(c)]
        s = rng.choice(cells)
        w = _random_walk_solution(rng, r, c, conn, s, rng.randint(1, 8))
        case = dict(rows=r, cols=c, edges=edges, kind="solved", solution=w)
        img = _code_img(_real_maze(case).as_pixels())
        H, W = len(img), len(img[0])
        for _k in range(rng.randint(1, 3)):
            x, y = rng.randrange(H), rng.randrange(W)
            img[x][y] = rng.choice([col["START"], col["END"], col["PATH"], col["OPEN"], col["WALL"], 0x808080, col["PATH"]])
        out.append(img)
    return out


# ------------------------------------------------------------------------------------------------
# evaluation of a chunk of cases (runs in the parent or in a worker process)
# ------------------------------------------------------------------------------------------------
def _canon_case(case):
    return {k: case[k] for k in ("rows", "cols", "edges", "kind", "start", "end", "solution") if k in case}


def eval_chunk(cases, workdir, tag, use_model=True, stop_at_first=False):
    import common as C
    warnings.filterwarnings("ignore")
    res = dict(evals=0, nontrivial=[], hist={}, disagreements=[], violations=[], validated=0, samples=[])
    impls, reqs = [], []
    for case in cases:
        cc = _canon_case(case)
        if "allreads" not in case:   # every fourth case is read back by all three classes, the others by their own class
            case = dict(case, allreads=(zlib.crc32(json.dumps(cc, sort_keys=True).encode()) % 4 == 0))
        try:
            renders = _impl_renders(case)
        except Exception as e:  # constructor refused the maze: not a case
            res["hist"]["rejected:" + type(e).__name__] = res["hist"].get("rejected:" + type(e).__name__, 0) + 1
            continue
        res["evals"] += 1
        nt = bool(case["edges"]) or case["kind"] != "lattice"
        if nt: res["nontrivial"].append(json.dumps(cc, sort_keys=True))
        for b in (f"shape={case['rows']}x{case['cols']}", f"kind={case['kind']}", f"tag={case.get('tag', 'exhaustive')}",
                  *( [f"sol_len={min(len(case['solution']), 20)}"] if case["kind"] == "solved" else [])):
            res["hist"][b] = res["hist"].get(b, 0) + 1
        for rd in renders:
            for src in ("reads", "reads_ascii"):
                if rd[src]:
                    for k, v in rd[src].items():
                        b = f"{src}:{'ok' if 'ok' in v else v['err']}"
                        res["hist"][b] = res["hist"].get(b, 0) + 1
        for what in _oracle(case, renders):
            res["violations"].append(dict(what=what, case=cc))
        if res["violations"] and stop_at_first:
            return res
        impls.append((cc, renders))
        reqs.append(dict(op="C10.maze", maze=cc))
    if use_model and reqs:
        drv = C.Driver(Path(workdir)); drv.n = tag
        outs = drv.run(reqs)
        for (cc, renders), o in zip(impls, outs):
            if "error" in o:
                res["disagreements"].append(dict(what=f"driver error {o['error']}", case=cc)); continue
            res["validated"] += 1
            for mr, ir in zip(o["renders"], renders):   # the code was asked for a subset of the reading classes
                for k in ("reads", "reads_ascii"):
                    if mr[k] is not None and ir[k] is not None:
                        mr[k] = {kk: mr[k][kk] for kk in ir[k]}
            if o["renders"] != [{k: v for k, v in r_.items() if k != "kept"} for r_ in renders]:     # "kept" is an oracle-only observation
                # name the first differing component
                msg = "?"
                for mr, ir in zip(o["renders"], renders):
                    for k in ("pixels", "ascii", "reads", "reads_ascii"):
                        if mr[k] != ir[k]:
                            msg = f"{k} (show_endpoints={ir['se']}, show_solution={ir['ss']}): model={str(mr[k])[:400]} impl={str(ir[k])[:400]}"
                            break
                    else:
                        continue
                    break
                res["disagreements"].append(dict(what=f"model and code differ on {json.dumps(cc)[:300]}: {msg}", case=cc))
            elif len(res["samples"]) < 2 and cc["kind"] == "solved" and len(cc["solution"]) > 3 and renders[0]["reads"]:
                res["samples"].append(dict(case=cc, ascii=renders[0]["ascii"], read_back=renders[0]["reads"]["solved"]))
    return res


def _eval_reads(ctx, images):
    """damaged images: model vs. code on from_pixels for the three classes (no property claim: correspondence only)"""
    np, LM = _mods()
    reqs, impl = [], []
    for img in images:
        arr = np.array([[[p >> 16, (p >> 8) & 255, p & 255] for p in row] for row in img], dtype=np.uint8)
        for k in KINDS:
            impl.append(_try(lambda: _canon_maze(_cls(k).from_pixels(arr.copy()))))
            reqs.append(dict(op="C10.read", cls=k, pixels=img))
            ctx.count("damaged:" + ("ok" if "ok" in impl[-1] else impl[-1]["err"]))
    outs = ctx.driver.run(reqs)
    for rq, im, o in zip(reqs, impl, outs):
        ctx.case(dict(read=rq["pixels"], cls=rq["cls"]))
        ctx.traces_validated += 1
        if o.get("read") != im:
            ctx.disagree(f"from_pixels({rq['cls']}) on a damaged image: model={str(o)[:300]} impl={str(im)[:300]} image={rq['pixels']}", rq)


def _merge(ctx, res):
    import hashlib
    ctx.evaluations += res["evals"]
    for s in res["nontrivial"]:
        ctx.nontrivial.add(hashlib.blake2b(s.encode(), digest_size=8).digest())
    for k, v in res["hist"].items():
        ctx.count(k, v)
    ctx.traces_validated += res["validated"]
    for d in res["disagreements"]:
        ctx.disagree(d["what"], d["case"])
    for v in res["violations"]:
        ctx.violate(v["what"], v["case"])
    for s in res["samples"]:
        ctx.sample(s, limit=3)


def _worker(args):
    cases, workdir, tag, use_model, repo = args
    sys.path.insert(0, str(Path(__file__).resolve().parent))
    if repo not in sys.path:
        sys.path.insert(0, repo)
    return eval_chunk(cases, workdir, tag, use_model)


def _run_cases(ctx, cases, use_model=True, jobs=None):
    import common as C
    jobs = jobs or min(16, os.cpu_count() or 1)
    chunk = 400
    chunks = [cases[i:i + chunk] for i in range(0, len(cases), chunk)]
    if len(chunks) <= 1 or jobs <= 1:
        for k, ch in enumerate(chunks):
            _merge(ctx, eval_chunk(ch, ctx.workdir, 5000 + k, use_model))
        return
    from concurrent.futures import ProcessPoolExecutor
    import multiprocessing as mp
    with ProcessPoolExecutor(jobs, mp_context=mp.get_context("fork")) as ex:
        for res in ex.map(_worker, [(ch, str(ctx.workdir), 5000 + k, use_model, str(C.REPO)) for k, ch in enumerate(chunks)]):
            _merge(ctx, res)


QUICK_SHAPES = [(1, 1), (1, 2), (2, 1), (1, 3), (3, 1), (2, 2), (1, 4), (4, 1), (2, 3), (3, 2), (1, 5), (1, 6)]
THOROUGH_SHAPES = QUICK_SHAPES + [(2, 4), (4, 2), (3, 3)]


def run(ctx):
    warnings.filterwarnings("ignore")
    cases = []
    corpus = Path(__file__).resolve().parent / "corpus" / "C10"
    if corpus.exists():
        for p in sorted(corpus.glob("*.json")):
            cases.append(json.loads(p.read_text()))
    cases += list(_exhaustive(QUICK_SHAPES if ctx.quick else THOROUGH_SHAPES, targeted_stride=3 if ctx.quick else 2))
    cases += list(_sampled(ctx.rng, 200 if ctx.quick else 3000))
    cases += list(_serpentines([(11, 12), (12, 12), (12, 11), (16, 16)] if ctx.quick else [(11, 12), (12, 11), (12, 12), (16, 16), (17, 17), (23, 12), (20, 20)]))
    cases += list(_big(ctx.rng, [(66, 2), (2, 130)] if ctx.quick else [(64, 64), (130, 130), (70, 40), (1, 300), (300, 1), (128, 3), (3, 129)]))
    ctx.exhaustive = True
    ctx.extra["exhaustive_domain"] = f"all connection structures x all ordered endpoint pairs x BFS shortest paths on shapes {QUICK_SHAPES if ctx.quick else THOROUGH_SHAPES}"
    _run_cases(ctx, cases)
    _eval_reads(ctx, _damaged_images(ctx.rng, 150 if ctx.quick else 2000))


def search(ctx):
    """oracle-only exploration of the real code; stops at the first violation"""
    warnings.filterwarnings("ignore")
    def feed(gen, limit):
        buf = []
        for k, case in enumerate(gen):
            if k >= limit: break
            buf.append(case)
            if len(buf) == 200:
                _merge(ctx, eval_chunk(buf, ctx.workdir, 9000, use_model=False, stop_at_first=True)); buf = []
                if ctx.violations: return True
        if buf:
            _merge(ctx, eval_chunk(buf, ctx.workdir, 9000, use_model=False, stop_at_first=True))
        return bool(ctx.violations)
    if feed(_exhaustive(QUICK_SHAPES), 10 ** 9): return
    if feed(_sampled(ctx.rng, 600 if ctx.quick else 5000), 10 ** 9): return
    if not ctx.quick:
        feed(_exhaustive([(3, 3)], stride=7, offset=ctx.seed), 10 ** 9)


def replay(ctx, rp):
    case = rp.get("case", rp)
    if "read" in case or "pixels" in case:
        _eval_reads(ctx, [case.get("pixels") or case["read"]]); return
    _merge(ctx, eval_chunk([dict(case, allreads=True)], ctx.workdir, 9500, use_model=True))
