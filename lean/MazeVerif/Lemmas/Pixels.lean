import MazeVerif.Model.Pixels
import MazeVerif.Generated.Constants
import MazeVerif.Lemmas.DfsFinal
/-! Lemmas about the pixel model (C10, reused by C17): ties to the regenerated constants, the black/white grid,
    the per-pixel specification of `asPixels`, and what the readers see in such an image. -/
namespace MZ.Pix

/-! ## ties to `Generated/Constants.lean` (re-emitted from the source on every run) -/
theorem pixelColors_tie : Gen.pixelColors =
    [("WALL", cWall.1, cWall.2.1, cWall.2.2), ("OPEN", cOpen.1, cOpen.2.1, cOpen.2.2), ("START", cStart.1, cStart.2.1, cStart.2.2),
     ("END", cEnd.1, cEnd.2.1, cEnd.2.2), ("PATH", cPath.1, cPath.2.1, cPath.2.2)] := by rfl
theorem asciiChars_tie : Gen.asciiChars =
    [("WALL", String.singleton chWall), ("OPEN", String.singleton chOpen), ("START", String.singleton chStart),
     ("END", String.singleton chEnd), ("PATH", String.singleton chPath)] := by decide
theorem pairings_tie : Gen.asciiPixelPairings = [("WALL", "WALL"), ("OPEN", "OPEN"), ("START", "START"), ("END", "END"), ("PATH", "PATH")] := by rfl
theorem colors_nodup : [cWall, cOpen, cStart, cEnd, cPath].Nodup := by decide
theorem chars_nodup : [chWall, chOpen, chStart, chEnd, chPath].Nodup := by decide

/-! ## index arithmetic -/
theorem normIdx_inRange {n : Nat} {i : Int} (h0 : 0 ≤ i) (h1 : i < n) : normIdx n i = some i.toNat := by
  simp only [normIdx, h0, h1, and_self, if_true]

theorem setI_inRange {α} (g : Img α) {x y : Int} (a : α) (hx0 : 0 ≤ x) (hx1 : x < g.h) (hy0 : 0 ≤ y) (hy1 : y < g.w) :
    setI g x y a = .ok (g.set x.toNat y.toNat a) := by
  simp only [setI, normIdx_inRange hx0 hx1, normIdx_inRange hy0 hy1]

/-- pixel of a cell -/
def pixOf (c : Cell) : Nat × Nat := (2 * c.1.toNat + 1, 2 * c.2.toNat + 1)
/-- pixel between two consecutive cells `a`, `b` (their midpoint on the pixel lattice) -/
def midOf (a b : Cell) : Nat × Nat := ((a.1 + b.1 + 1).toNat, (a.2 + b.2 + 1).toNat)

def betweenPix : List Cell → List (Nat × Nat)
  | [] => []
  | [_] => []
  | a :: b :: rest => midOf a b :: betweenPix (b :: rest)

theorem mem_natCells {h w : Nat} {p : Nat × Nat} : p ∈ natCells h w ↔ p.1 < h ∧ p.2 < w := by
  obtain ⟨a, b⟩ := p
  simp only [natCells, List.mem_flatMap, List.mem_range, List.mem_map, Prod.mk.injEq]
  constructor
  · rintro ⟨i, hi, j, hj, rfl, rfl⟩; exact ⟨hi, hj⟩
  · rintro ⟨h1, h2⟩; exact ⟨a, h1, b, h2, rfl, rfl⟩

theorem natCells_nodup (h w : Nat) : (natCells h w).Nodup := by
  unfold natCells
  rw [List.nodup_flatMap]
  refine ⟨fun i _ => List.Nodup.map (fun a b h => by simpa using h) List.nodup_range, ?_⟩
  refine List.Pairwise.imp_of_mem ?_ (List.nodup_range (n := h))
  intro i j _ _ hij
  simp only [Function.onFun, List.disjoint_left, List.mem_map, List.mem_range]
  rintro c ⟨a, _, rfl⟩ ⟨b, _, hb⟩
  simp at hb; omega

/-! ## the black/white grid -/
/-- the pixel an array entry `(dim, i, j)` opens -/
def edgePix (e : Edge) : Option (Nat × Nat) :=
  if e.1 = 0 then some (2 * e.2.1.toNat + 2, 2 * e.2.2.toNat + 1)
  else if e.1 = 1 then some (2 * e.2.1.toNat + 1, 2 * e.2.2.toNat + 2) else none

theorem paintEdge_px (g : Img Bool) (e : Edge) (x y : Nat) :
    (paintEdge g e).px x y = (g.px x y || decide (edgePix e = some (x, y))) := by
  unfold paintEdge edgePix
  by_cases h0 : e.1 = 0
  · simp only [h0, if_true, Img.set, Option.some.injEq, Prod.mk.injEq]
    by_cases h : x = 2 * e.2.1.toNat + 2 ∧ y = 2 * e.2.2.toNat + 1
    · obtain ⟨rfl, rfl⟩ := h; simp
    · have : ¬ (2 * e.2.1.toNat + 2 = x ∧ 2 * e.2.2.toNat + 1 = y) := fun h' => h ⟨h'.1.symm, h'.2.symm⟩
      simp [h, this]
  · by_cases h1 : e.1 = 1
    · simp only [h0, h1, if_true, if_false, Img.set, Option.some.injEq, Prod.mk.injEq]
      by_cases h : x = 2 * e.2.1.toNat + 1 ∧ y = 2 * e.2.2.toNat + 2
      · obtain ⟨rfl, rfl⟩ := h; simp
      · have : ¬ (2 * e.2.1.toNat + 1 = x ∧ 2 * e.2.2.toNat + 2 = y) := fun h' => h ⟨h'.1.symm, h'.2.symm⟩
        simp [h, this]
    · simp [h0, h1]

theorem paintEdge_dims (g : Img Bool) (e : Edge) : (paintEdge g e).h = g.h ∧ (paintEdge g e).w = g.w := by
  unfold paintEdge; split
  · exact ⟨rfl, rfl⟩
  · split <;> exact ⟨rfl, rfl⟩

theorem foldl_paintEdge (E : List Edge) (g : Img Bool) (x y : Nat) :
    ((E.foldl paintEdge g).px x y = true ↔ g.px x y = true ∨ ∃ e ∈ E, edgePix e = some (x, y)) ∧
    (E.foldl paintEdge g).h = g.h ∧ (E.foldl paintEdge g).w = g.w := by
  induction E generalizing g with
  | nil => simp
  | cons e E ih =>
    simp only [List.foldl_cons]
    obtain ⟨h1, h2, h3⟩ := ih (paintEdge g e)
    refine ⟨?_, by rw [h2, (paintEdge_dims g e).1], by rw [h3, (paintEdge_dims g e).2]⟩
    rw [h1, paintEdge_px]
    simp only [Bool.or_eq_true, decide_eq_true_eq, List.mem_cons, exists_eq_or_imp]
    constructor
    · rintro ((h | h) | h)
      · exact Or.inl h
      · exact Or.inr (Or.inl h)
      · exact Or.inr (Or.inr h)
    · rintro (h | h | h)
      · exact Or.inl (Or.inl h)
      · exact Or.inl (Or.inr h)
      · exact Or.inr h

theorem bw_dims (rows cols : Nat) (E : List Edge) :
    (asPixelsBW rows cols E).h = 2 * rows + 1 ∧ (asPixelsBW rows cols E).w = 2 * cols + 1 := by
  unfold asPixelsBW
  exact ⟨(foldl_paintEdge E _ 0 0).2.1, (foldl_paintEdge E _ 0 0).2.2⟩

theorem bw_px (rows cols : Nat) (E : List Edge) (x y : Nat) :
    (asPixelsBW rows cols E).px x y = true ↔ (x % 2 = 1 ∧ y % 2 = 1) ∨ ∃ e ∈ E, edgePix e = some (x, y) := by
  unfold asPixelsBW
  rw [(foldl_paintEdge E _ x y).1]
  simp [Img.full]

/-! ## per-pixel specification of `as_pixels` -/
/-- what the constructors guarantee (endpoints in the grid) plus, for a solved maze, a solution that stays in the
    grid and moves one lattice step at a time -/
def Valid : Maze → Prop
  | .lattice .. => True
  | .targeted r c _ s e => inGrid r c s ∧ inGrid r c e
  | .solved r c _ s rest => (∀ x ∈ s :: rest, inGrid r c x) ∧ Chain (s :: rest)

def basePx (m : Maze) (x y : Nat) : RGB := if (asPixelsBW m.rows m.cols m.edges).px x y then cOpen else cWall

/-- the picture, pixel by pixel -/
def specPx (m : Maze) (se ss : Bool) (x y : Nat) : RGB :=
  match m with
  | .lattice .. => basePx m x y
  | .targeted _ _ _ s e =>
    if se then (if (x, y) = pixOf e then cEnd else if (x, y) = pixOf s then cStart else basePx m x y) else basePx m x y
  | .solved _ _ _ s rest =>
    let p1 := if ss then (if (x, y) ∈ betweenPix (s :: rest) then cPath else if (x, y) ∈ (s :: rest).map pixOf then cPath
                          else basePx m x y) else basePx m x y
    if se then (if (x, y) = pixOf ((s :: rest).getLast (by simp)) then cEnd else if (x, y) = pixOf s then cStart else p1) else p1

theorem set_px {α} (g : Img α) (p : Nat × Nat) (a : α) (x y : Nat) :
    (g.set p.1 p.2 a).px x y = if (x, y) = p then a else g.px x y := by
  obtain ⟨p1, p2⟩ := p
  simp only [Img.set, Prod.mk.injEq]

theorem cpx_toNat {rows cols : Nat} {c : Cell} (h : inGrid rows cols c) :
    0 ≤ (cpx c).1 ∧ (cpx c).1 < ((2 * rows + 1 : Nat) : Int) ∧ 0 ≤ (cpx c).2 ∧ (cpx c).2 < ((2 * cols + 1 : Nat) : Int) ∧
    (cpx c).1.toNat = (pixOf c).1 ∧ (cpx c).2.toNat = (pixOf c).2 := by
  obtain ⟨h1, h2, h3, h4⟩ := h
  simp only [cpx, pixOf]
  omega

theorem paintCells_spec (rows cols : Nat) : ∀ (cs : List Cell) (g : Img RGB), g.h = 2 * rows + 1 → g.w = 2 * cols + 1 →
    (∀ c ∈ cs, inGrid rows cols c) →
    ∃ g', paintCells g cs = .ok g' ∧ g'.h = g.h ∧ g'.w = g.w ∧
      ∀ x y, g'.px x y = if (x, y) ∈ cs.map pixOf then cPath else g.px x y
  | [], g, _, _, _ => ⟨g, rfl, rfl, rfl, by simp⟩
  | c :: cs, g, hh, hw, hin => by
    obtain ⟨a1, a2, a3, a4, a5, a6⟩ := cpx_toNat (hin c (by simp))
    have hs := setI_inRange g cPath a1 (by rw [hh]; exact a2) a3 (by rw [hw]; exact a4)
    rw [a5, a6] at hs
    obtain ⟨g', e1, e2, e3, e4⟩ := paintCells_spec rows cols cs (g.set (pixOf c).1 (pixOf c).2 cPath) hh hw
      (fun x hx => hin x (by simp [hx]))
    refine ⟨g', by simp only [paintCells, hs, e1], e2, e3, ?_⟩
    intro x y
    rw [e4, set_px]
    simp only [List.map_cons, List.mem_cons]
    by_cases hm : (x, y) ∈ cs.map pixOf <;> by_cases hc : (x, y) = pixOf c <;> simp [hm, hc]

theorem unitStep_of_nbr {a b : Cell} (h : b ∈ nbrs a) : unitStep a b = true := by
  simp only [nbrs, List.mem_cons, List.not_mem_nil, or_false] at h
  rcases h with rfl | rfl | rfl | rfl <;> simp only [unitStep, beq_iff_eq] <;> omega

theorem mid_toNat {rows cols : Nat} {a b : Cell} (ha : inGrid rows cols a) (hb : inGrid rows cols b) :
    0 ≤ a.1 * 2 + 1 + b.1 - a.1 ∧ a.1 * 2 + 1 + b.1 - a.1 < ((2 * rows + 1 : Nat) : Int) ∧
    0 ≤ a.2 * 2 + 1 + b.2 - a.2 ∧ a.2 * 2 + 1 + b.2 - a.2 < ((2 * cols + 1 : Nat) : Int) ∧
    (a.1 * 2 + 1 + b.1 - a.1).toNat = (midOf a b).1 ∧ (a.2 * 2 + 1 + b.2 - a.2).toNat = (midOf a b).2 := by
  obtain ⟨h1, h2, h3, h4⟩ := ha
  obtain ⟨k1, k2, k3, k4⟩ := hb
  simp only [midOf]
  omega

theorem paintBetween_spec (rows cols : Nat) : ∀ (cs : List Cell) (g : Img RGB), g.h = 2 * rows + 1 → g.w = 2 * cols + 1 →
    (∀ c ∈ cs, inGrid rows cols c) → Chain cs →
    ∃ g', paintBetween g cs = .ok g' ∧ g'.h = g.h ∧ g'.w = g.w ∧
      ∀ x y, g'.px x y = if (x, y) ∈ betweenPix cs then cPath else g.px x y
  | [], g, _, _, _, _ => ⟨g, rfl, rfl, rfl, by simp [betweenPix]⟩
  | [_], g, _, _, _, _ => ⟨g, rfl, rfl, rfl, by simp [betweenPix]⟩
  | a :: b :: cs, g, hh, hw, hin, hch => by
    obtain ⟨a1, a2, a3, a4, a5, a6⟩ := mid_toNat (hin a (by simp)) (hin b (by simp))
    have hs := setI_inRange g cPath a1 (by rw [hh]; exact a2) a3 (by rw [hw]; exact a4)
    rw [a5, a6] at hs
    obtain ⟨g', e1, e2, e3, e4⟩ := paintBetween_spec rows cols (b :: cs) (g.set (midOf a b).1 (midOf a b).2 cPath) hh hw
      (fun x hx => hin x (by simp [hx])) hch.2
    refine ⟨g', by simp only [paintBetween, unitStep_of_nbr hch.1, if_true, hs, e1], e2, e3, ?_⟩
    intro x y
    rw [e4, set_px]
    simp only [betweenPix, List.mem_cons]
    by_cases hm : (x, y) ∈ betweenPix (b :: cs) <;> by_cases hc : (x, y) = midOf a b <;> simp [hm, hc]

theorem paintEnds_spec (rows cols : Nat) (g : Img RGB) (s e : Cell) (hh : g.h = 2 * rows + 1) (hw : g.w = 2 * cols + 1)
    (hs : inGrid rows cols s) (he : inGrid rows cols e) :
    ∃ g', paintEnds g s e = .ok g' ∧ g'.h = g.h ∧ g'.w = g.w ∧
      ∀ x y, g'.px x y = if (x, y) = pixOf e then cEnd else if (x, y) = pixOf s then cStart else g.px x y := by
  obtain ⟨a1, a2, a3, a4, a5, a6⟩ := cpx_toNat hs
  obtain ⟨b1, b2, b3, b4, b5, b6⟩ := cpx_toNat he
  have h1 := setI_inRange g cStart a1 (by rw [hh]; exact a2) a3 (by rw [hw]; exact a4)
  rw [a5, a6] at h1
  have h2 := setI_inRange (g.set (pixOf s).1 (pixOf s).2 cStart) cEnd b1 (by show _ < ((g.h : Nat) : Int); rw [hh]; exact b2) b3
    (by show _ < ((g.w : Nat) : Int); rw [hw]; exact b4)
  rw [b5, b6] at h2
  refine ⟨(g.set (pixOf s).1 (pixOf s).2 cStart).set (pixOf e).1 (pixOf e).2 cEnd, ?_, rfl, rfl, ?_⟩
  · simp only [paintEnds, h1, h2]
  · intro x y
    rw [set_px, set_px]

theorem getLast_inGrid {rows cols : Nat} {s : Cell} {rest : List Cell} (h : ∀ x ∈ s :: rest, inGrid rows cols x) :
    inGrid rows cols ((s :: rest).getLast (by simp)) := h _ (List.getLast_mem _)

/-- `as_pixels` never fails on a valid maze with an accepted flag pair, and paints exactly `specPx` -/
theorem asPixels_spec (m : Maze) (se ss : Bool) (hv : Valid m) (hf : ¬ (ss = true ∧ se = false)) :
    ∃ img, asPixels m se ss = .ok img ∧ img.h = 2 * m.rows + 1 ∧ img.w = 2 * m.cols + 1 ∧
      ∀ x y, img.px x y = specPx m se ss x y := by
  have hflag : (ss && !se) = false := by
    cases ss <;> cases se <;> simp_all
  obtain ⟨bh, bw⟩ := bw_dims m.rows m.cols m.edges
  cases m with
  | lattice r c E =>
    refine ⟨_, by simp only [asPixels, hflag]; rfl, bh, bw, fun x y => rfl⟩
  | targeted r c E s e =>
    cases se with
    | false => exact ⟨_, by simp only [asPixels, hflag]; rfl, bh, bw, fun x y => rfl⟩
    | true =>
      obtain ⟨g', e1, e2, e3, e4⟩ := paintEnds_spec r c
        ((asPixelsBW r c E).map fun b => if b then cOpen else cWall) s e bh bw hv.1 hv.2
      refine ⟨g', ?_, e2.trans bh, e3.trans bw, fun x y => ?_⟩
      · simp only [asPixels, hflag]; exact e1
      · rw [e4]; rfl
  | solved r c E s rest =>
    have hend := getLast_inGrid hv.1
    have hs : inGrid r c s := hv.1 s (by simp)
    -- the solution layer
    have step1 : ∃ g1, paintSolution ((asPixelsBW r c E).map fun b => if b then cOpen else cWall) (s :: rest) ss = Except.ok g1 ∧
        g1.h = 2 * r + 1 ∧ g1.w = 2 * c + 1 ∧
        ∀ x y, g1.px x y = if ss = true then (if (x, y) ∈ betweenPix (s :: rest) then cPath
            else if (x, y) ∈ (s :: rest).map pixOf then cPath else basePx (.solved r c E s rest) x y)
          else basePx (.solved r c E s rest) x y := by
      cases ss with
      | false => exact ⟨_, rfl, bh, bw, fun x y => rfl⟩
      | true =>
        obtain ⟨g', e1, e2, e3, e4⟩ := paintCells_spec r c (s :: rest)
          ((asPixelsBW r c E).map fun b => if b then cOpen else cWall) bh bw hv.1
        obtain ⟨g'', f1, f2, f3, f4⟩ := paintBetween_spec r c (s :: rest) g' (e2.trans bh) (e3.trans bw) hv.1 hv.2
        refine ⟨g'', by simp only [paintSolution, if_true, e1, f1], f2.trans (e2.trans bh), f3.trans (e3.trans bw), fun x y => ?_⟩
        rw [f4, e4]; rfl
    obtain ⟨g1, k1, k2, k3, k4⟩ := step1
    cases se with
    | false =>
      refine ⟨g1, ?_, k2, k3, fun x y => ?_⟩
      · simp only [asPixels, hflag, Bool.false_eq_true, if_false, Maze.rows, Maze.cols, Maze.edges] at k1 ⊢
        rw [k1]
      · rw [k4]; rfl
    | true =>
      obtain ⟨g2, e1, e2, e3, e4⟩ := paintEnds_spec r c g1 s _ k2 k3 hs hend
      refine ⟨g2, ?_, e2.trans k2, e3.trans k3, fun x y => ?_⟩
      · simp only [asPixels, hflag, Bool.false_eq_true, if_false, if_true, Maze.rows, Maze.cols, Maze.edges] at k1 ⊢
        rw [k1]; exact e1
      · rw [e4, k4]; rfl

/-! ## well-formedness and the black/white grid in terms of `Adj` -/
/-- every listed entry is an entry of the `[2, rows, cols]` array -/
def InArr (rows cols : Nat) (E : List Edge) : Prop :=
  ∀ e ∈ E, (e.1 = 0 ∨ e.1 = 1) ∧ 0 ≤ e.2.1 ∧ e.2.1 < rows ∧ 0 ≤ e.2.2 ∧ e.2.2 < cols

/-- … and joins two cells of the grid (last row of dim 0 and last column of dim 1 are clear) -/
def WF (rows cols : Nat) (E : List Edge) : Prop :=
  ∀ e ∈ E, (e.1 = 0 ∧ 0 ≤ e.2.1 ∧ e.2.1 + 1 < rows ∧ 0 ≤ e.2.2 ∧ e.2.2 < cols) ∨
           (e.1 = 1 ∧ 0 ≤ e.2.1 ∧ e.2.1 < rows ∧ 0 ≤ e.2.2 ∧ e.2.2 + 1 < cols)

theorem WF.inArr {rows cols E} (h : WF rows cols E) : InArr rows cols E := by
  intro e he
  rcases h e he with ⟨a, b, c, d, f⟩ | ⟨a, b, c, d, f⟩
  · exact ⟨Or.inl a, b, by omega, d, f⟩
  · exact ⟨Or.inr a, b, c, d, by omega⟩

/-- consecutive cells are joined in `E` -/
def PathIn (E : List Edge) : List Cell → Prop
  | [] => True
  | [_] => True
  | a :: b :: rest => Adj E a b ∧ PathIn E (b :: rest)

theorem adj_nbr {E : List Edge} {a b : Cell} (h : Adj E a b) : b ∈ nbrs a := by
  obtain ⟨a1, a2⟩ := a
  obtain ⟨b1, b2⟩ := b
  simp only [nbrs, List.mem_cons, List.not_mem_nil, or_false, Prod.mk.injEq]
  rcases h with ⟨h, _⟩ | ⟨h, _⟩ | ⟨h, _⟩ | ⟨h, _⟩ <;> simp only [Prod.mk.injEq] at h <;> omega

theorem PathIn.chain {E : List Edge} : ∀ {p : List Cell}, PathIn E p → Chain p
  | [], _ => trivial
  | [_], _ => trivial
  | _ :: _ :: _, h => ⟨adj_nbr h.1, PathIn.chain h.2⟩

theorem bw_even_odd {rows cols : Nat} {E : List Edge} (hE : InArr rows cols E) (i j : Int) (hi : 0 ≤ i) (hj : 0 ≤ j) :
    (asPixelsBW rows cols E).px (2 * i.toNat + 2) (2 * j.toNat + 1) = true ↔ (0, i, j) ∈ E := by
  rw [bw_px]
  constructor
  · rintro (h | ⟨e, he, h⟩)
    · omega
    · obtain ⟨hd, h1, _, h2, _⟩ := hE e he
      obtain ⟨d, a, b⟩ := e
      simp only [edgePix] at h
      simp only at hd h1 h2
      rcases hd with rfl | rfl
      · simp only [if_true, Option.some.injEq, Prod.mk.injEq] at h
        have : a = i := by omega
        have : b = j := by omega
        subst_vars; exact he
      · simp only [Nat.succ_ne_zero, if_false, if_true, Option.some.injEq, Prod.mk.injEq] at h
        omega
  · intro h
    exact Or.inr ⟨_, h, by simp [edgePix]⟩

theorem bw_odd_even {rows cols : Nat} {E : List Edge} (hE : InArr rows cols E) (i j : Int) (hi : 0 ≤ i) (hj : 0 ≤ j) :
    (asPixelsBW rows cols E).px (2 * i.toNat + 1) (2 * j.toNat + 2) = true ↔ (1, i, j) ∈ E := by
  rw [bw_px]
  constructor
  · rintro (h | ⟨e, he, h⟩)
    · omega
    · obtain ⟨hd, h1, _, h2, _⟩ := hE e he
      obtain ⟨d, a, b⟩ := e
      simp only [edgePix] at h
      simp only at hd h1 h2
      rcases hd with rfl | rfl
      · simp only [if_true, Option.some.injEq, Prod.mk.injEq] at h
        omega
      · simp only [Nat.succ_ne_zero, if_false, if_true, Option.some.injEq, Prod.mk.injEq] at h
        have : a = i := by omega
        have : b = j := by omega
        subst_vars; exact he
  · intro h
    exact Or.inr ⟨_, h, by simp [edgePix]⟩

theorem bw_cell (rows cols : Nat) (E : List Edge) (c : Cell) :
    (asPixelsBW rows cols E).px (pixOf c).1 (pixOf c).2 = true := by
  rw [bw_px]; left; simp only [pixOf]; omega

theorem bw_border {rows cols : Nat} {E : List Edge} (hE : WF rows cols E) {x y : Nat}
    (hb : x = 0 ∨ y = 0 ∨ x = 2 * rows ∨ y = 2 * cols) : (asPixelsBW rows cols E).px x y = false := by
  rw [Bool.eq_false_iff]
  intro h
  rw [bw_px] at h
  rcases h with h | ⟨e, he, h⟩
  · omega
  · obtain ⟨d, a, b⟩ := e
    simp only [edgePix] at h
    rcases hE _ he with ⟨h0, h1, h2, h3, h4⟩ | ⟨h0, h1, h2, h3, h4⟩ <;> simp only at h0 h1 h2 h3 h4 <;> subst h0
    · simp only [if_true, Option.some.injEq, Prod.mk.injEq] at h; omega
    · simp only [Nat.succ_ne_zero, if_false, if_true, Option.some.injEq, Prod.mk.injEq] at h; omega

/-- the pixel between two lattice neighbours is open exactly when they are joined -/
theorem bw_mid_iff_adj {rows cols : Nat} {E : List Edge} (hE : InArr rows cols E) {a b : Cell}
    (ha : inGrid rows cols a) (hb : inGrid rows cols b) (hn : b ∈ nbrs a) :
    (asPixelsBW rows cols E).px (midOf a b).1 (midOf a b).2 = true ↔ Adj E a b := by
  obtain ⟨a1, a2⟩ := a
  obtain ⟨h1, h2, h3, h4⟩ := ha
  obtain ⟨k1, k2, k3, k4⟩ := hb
  simp only at h1 h2 h3 h4
  simp only [nbrs, List.mem_cons, List.not_mem_nil, or_false] at hn
  rcases hn with rfl | rfl | rfl | rfl <;> simp only at k1 k2 k3 k4
  · -- right
    have e1 : (midOf (a1, a2) (a1, a2 + 1)).1 = 2 * a1.toNat + 1 := by simp only [midOf]; omega
    have e2 : (midOf (a1, a2) (a1, a2 + 1)).2 = 2 * a2.toNat + 2 := by simp only [midOf]; omega
    rw [e1, e2, bw_odd_even hE a1 a2 h1 h3]
    unfold Adj
    constructor
    · intro h; exact Or.inr (Or.inr (Or.inl ⟨rfl, h⟩))
    · rintro (⟨h, _⟩ | ⟨h, _⟩ | ⟨_, h⟩ | ⟨h, _⟩)
      · simp only [Prod.mk.injEq] at h; omega
      · simp only [Prod.mk.injEq] at h; omega
      · exact h
      · simp only [Prod.mk.injEq] at h; omega
  · -- left
    have e1 : (midOf (a1, a2) (a1, a2 - 1)).1 = 2 * a1.toNat + 1 := by simp only [midOf]; omega
    have e2 : (midOf (a1, a2) (a1, a2 - 1)).2 = 2 * (a2 - 1).toNat + 2 := by simp only [midOf]; omega
    rw [e1, e2, bw_odd_even hE a1 (a2 - 1) h1 k3]
    unfold Adj
    constructor
    · intro h; exact Or.inr (Or.inr (Or.inr ⟨by show (a1, a2) = (a1, a2 - 1 + 1); rw [Int.sub_add_cancel], h⟩))
    · rintro (⟨h, _⟩ | ⟨h, _⟩ | ⟨h, _⟩ | ⟨_, h⟩)
      · simp only [Prod.mk.injEq] at h; omega
      · simp only [Prod.mk.injEq] at h; omega
      · simp only [Prod.mk.injEq] at h; omega
      · exact h
  · -- down
    have e1 : (midOf (a1, a2) (a1 + 1, a2)).1 = 2 * a1.toNat + 2 := by simp only [midOf]; omega
    have e2 : (midOf (a1, a2) (a1 + 1, a2)).2 = 2 * a2.toNat + 1 := by simp only [midOf]; omega
    rw [e1, e2, bw_even_odd hE a1 a2 h1 h3]
    unfold Adj
    constructor
    · intro h; exact Or.inl ⟨rfl, h⟩
    · rintro (⟨_, h⟩ | ⟨h, _⟩ | ⟨h, _⟩ | ⟨h, _⟩)
      · exact h
      · simp only [Prod.mk.injEq] at h; omega
      · simp only [Prod.mk.injEq] at h; omega
      · simp only [Prod.mk.injEq] at h; omega
  · -- up
    have e1 : (midOf (a1, a2) (a1 - 1, a2)).1 = 2 * (a1 - 1).toNat + 2 := by simp only [midOf]; omega
    have e2 : (midOf (a1, a2) (a1 - 1, a2)).2 = 2 * a2.toNat + 1 := by simp only [midOf]; omega
    rw [e1, e2, bw_even_odd hE (a1 - 1) a2 k1 h3]
    unfold Adj
    constructor
    · intro h; exact Or.inr (Or.inl ⟨by show (a1, a2) = (a1 - 1 + 1, a2); rw [Int.sub_add_cancel], h⟩)
    · rintro (⟨h, _⟩ | ⟨_, h⟩ | ⟨h, _⟩ | ⟨h, _⟩)
      · simp only [Prod.mk.injEq] at h; omega
      · exact h
      · simp only [Prod.mk.injEq] at h; omega
      · simp only [Prod.mk.injEq] at h; omega

end MZ.Pix
