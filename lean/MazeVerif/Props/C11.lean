import MazeVerif.Lemmas.Cache
/-! # C11 — the on-disk dataset cache never serves wrong data, whatever happened to the file

Model: `MZ.Cache.fromConfig` (dataset.py:217-314), the decision logic of `from_config` with everything the
runtime answers as a parameter (`World`): the outcome of `exists()+read` (`absent | raises | okDs d | okOther`),
of `download`, of `generate`, of every filter, and whether the write of `save` is cut short.

What these theorems can say: for EVERY such answer (every file content, every crash point, every sequence of
faults and requests) the code's own logic never hands out a dataset whose stored config differs from the
request (except in `n_mazes`, or by the one documented allowance), regenerates when the file is unusable,
rewrites the file exactly then, and reaches a fixed point (a loadable file that the next request serves).

What they cannot say (PARTIAL, see `C11_full`): that a damaged file really makes `read` raise or return a
dataset identical to the one saved — that is a fact about zipfile/CRC/json/np.load, validated by the fault
enumeration of harness/c11.py on real files (every truncation offset, byte corruptions, every interrupted
low-level write, foreign files), not proved; and that the mazes inside a file whose config matches are the
mazes of that config (the code trusts the file: `DS.mazes` of an `okDs` outcome is unconstrained). -/
namespace MZ.Cache

/-- the runtime assumption the property needs and Lean cannot prove: after ANY damage to a file that `save`
    wrote as `stored` (truncation, corruption, interrupted write, removal), `exists()+read` answers `absent`,
    raises, or still returns `stored` -/
def Damaged {μ} (stored : DS μ) (f : ReadOutcome μ) : Prop := f = .absent ∨ f = .raises ∨ f = .okDs stored

/-- how the object handed back relates to the dataset `d` that passed the config check: it IS `d`, unless this
    request saved it in a minimal format, which collects the generation metadata in place — then its filter list is
    `d`'s followed by one `collect_generation_meta()` record and `n_mazes` is the only other field touched -/
def SaveRel {μ} (d out : DS μ) : Prop :=
  out = d ∨ (out.cfg.filters = d.cfg.filters ++ [cgmRec] ∧
             ∀ f, f ≠ "n_mazes" → out.cfg.fields.lookup f = d.cfg.fields.lookup f)

/-- Full statement of C11 over the model: for the default flags, for every world,
    (1) any successful return is (up to `SaveRel`) a dataset whose config equals the request modulo `n_mazes`, or
        differs by exactly one trailing `collect_generation_meta` record (the allowance);
    (2) a foreign dataset under the requested name raises `configMismatch` and leaves the file alone;
    (3) if the world generates `fresh` for the request: on every damaged file state the request returns exactly what
        a fresh generate+save gives and leaves a file that reads back as it — where "damaged file state" is
        `Damaged`, the part that is an assumption about the store. -/
def C11_full : Prop :=
  ∀ (μ : Type) (fl : Flags), defaultFlags? = some fl →
  ∀ (w : World μ) (cfg : Cfg),
    (∀ r, (fromConfig fl w cfg).res = .ok r →
        ∃ d, (AgreeModN cfg d.cfg ∨ MetaOnly cfg d.cfg) ∧ SaveRel d r.out) ∧
    (∀ d, w.read = .okDs d → ¬ AgreeModN cfg d.cfg → ¬ MetaOnly cfg d.cfg →
        (fromConfig fl w cfg).res = .error (.configMismatch (diff cfg d.cfg)) ∧ (fromConfig fl w cfg).fileAfter = w.read) ∧
    (∀ fresh, Fresh w cfg fresh → w.download = .notImplemented → w.saveCut = none →
        Damaged (saveImage w fresh) w.read →
        ∃ r, (fromConfig fl w cfg).res = .ok r ∧ r.out = saveImage w fresh ∧
             (fromConfig fl w cfg).fileAfter = .okDs (saveImage w fresh))

private theorem saveRel_saveImage {μ} (w : World μ) (d : DS μ) : SaveRel d (saveImage w d) := by
  cases hm : minimalSave w d with
  | false => exact Or.inl (saveImage_id w d hm)
  | true => exact Or.inr (saveImage_cfg w d hm)

/-- NEVER WRONG: for all flags with `except_on_config_mismatch`, all worlds (every read / download / generate /
    filter / save outcome), a successful return is a dataset `d` that passed the check — its config agrees with the
    request on every dataclass field but `n_mazes`, or (only if `allow_generation_metadata_filter_mismatch`) its filter
    list is the request's plus one trailing `collect_generation_meta` — and the object returned is `d` itself, or `d`
    as mutated by this request's own minimal-format save (`SaveRel`). -/
theorem C11_never_wrong {μ} (fl : Flags) (w : World μ) (cfg : Cfg) (r : Res μ)
    (he : fl.exceptOnMismatch = true) (h : (fromConfig fl w cfg).res = .ok r) :
    ∃ d, (AgreeModN cfg d.cfg ∨ (fl.allowMetaMismatch = true ∧ MetaOnly cfg d.cfg)) ∧ SaveRel d r.out ∧
         (r.saved = false → r.out = d) := by
  obtain ⟨d, _, heq⟩ := fromConfig_ok fl w cfg r h
  rw [heq] at h
  obtain ⟨d', ho, hp, hout, _⟩ := checkAndSave_ok fl w cfg _ _ _ r h
  simp only [Option.some.injEq, Obj.ds.injEq] at ho
  subst ho
  refine ⟨d, ?_, ?_, ?_⟩
  · rcases passes_spec fl cfg d he hp with hd | ⟨ha, hma⟩
    · exact Or.inl ((diff_nil_iff _ _).mp hd)
    · exact Or.inr ⟨ha, metaAllowed_spec _ _ hma⟩
  · rw [hout]
    cases r.saved
    · exact Or.inl (by simp)
    · simpa using saveRel_saveImage w d
  · intro hs; rw [hout, hs]; simp

/-- NO SILENT FOREIGN DATA: whatever dataset `d` the file holds, if its config disagrees with the request (beyond
    `n_mazes` / the allowance) the request raises `configMismatch` naming the differing fields, returns nothing,
    and leaves the file untouched — for all flags with `load_local` and `except_on_config_mismatch`. -/
theorem C11_mismatch_raises {μ} (fl : Flags) (w : World μ) (cfg : Cfg) (d : DS μ)
    (hl : fl.loadLocal = true) (he : fl.exceptOnMismatch = true) (hr : w.read = .okDs d)
    (hna : ¬ AgreeModN cfg d.cfg) (hnm : ¬ (fl.allowMetaMismatch = true ∧ metaAllowed cfg d.cfg = true)) :
    (fromConfig fl w cfg).res = .error (.configMismatch (diff cfg d.cfg)) ∧
    (fromConfig fl w cfg).fileAfter = w.read ∧ diff cfg d.cfg ≠ [] := by
  have hd : diff cfg d.cfg ≠ [] := fun h => hna ((diff_nil_iff _ _).mp h)
  have hemp : (diff cfg d.cfg).isEmpty = false := by
    cases hdd : diff cfg d.cfg with
    | nil => exact absurd hdd hd
    | cons _ _ => rfl
  have hma : (fl.allowMetaMismatch && metaAllowed cfg d.cfg) = false := by
    cases h1 : fl.allowMetaMismatch <;> cases h2 : metaAllowed cfg d.cfg <;> simp_all
  have hp : passes fl cfg d = false := by simp [passes, hemp, he, hma]
  rw [cached_rejects fl w cfg d hl hr hp]
  exact ⟨rfl, hr.symm, hd⟩

/-- CACHE USED ONLY IF IT MATCHES: if the returned dataset was loaded from the local file then the file read as
    exactly that dataset, it passed the config check, nothing was generated, nothing was written, the file is
    as it was. All flags, all worlds. -/
theorem C11_uses_cache_only_if_match {μ} (fl : Flags) (w : World μ) (cfg : Cfg) (r : Res μ)
    (h : (fromConfig fl w cfg).res = .ok r) (hl : r.didLoadLocal = true) :
    fl.loadLocal = true ∧ w.read = .okDs r.out ∧ r.generated = false ∧ r.saved = false ∧
    (fromConfig fl w cfg).fileAfter = w.read ∧
    (fl.exceptOnMismatch = true → AgreeModN cfg r.out.cfg ∨ (fl.allowMetaMismatch = true ∧ MetaOnly cfg r.out.cfg)) := by
  obtain ⟨d, hp, heq⟩ := fromConfig_ok fl w cfg r h
  have hnw := fun he => C11_never_wrong fl w cfg r he h
  rw [heq] at h ⊢
  obtain ⟨d', ho, _, hout, _, _, _, hs, hfa, _⟩ := checkAndSave_ok fl w cfg _ _ _ r h
  simp only [Option.some.injEq, Obj.ds.injEq] at ho
  subst ho
  rw [hl] at hp hs
  have hs' : r.saved = false := by simpa using hs
  have hout' : r.out = d := by rw [hout, hs']; simp
  obtain ⟨h1, h2, h3⟩ := hp.inv_true
  refine ⟨h1, by rw [hout']; exact h2, h3, hs', by rw [hfa, hs']; simp, ?_⟩
  intro he
  obtain ⟨d2, hag, _, hsame⟩ := hnw he
  rw [hsame hs']
  exact hag

/-- REGENERATES (exact characterisation): when the file is absent or unreadable (or `load_local=False`) and
    nothing is downloadable, the request is `generate` → `_apply_filters_from_config` → check → save, for all
    generate/filter outcomes; it never looks at the file's content. -/
theorem C11_regenerates {μ} (fl : Flags) (w : World μ) (cfg : Cfg)
    (hc : fl.loadLocal = false ∨ w.read = .absent ∨ w.read = .raises)
    (hd : fl.doDownload = false ∨ w.download = .notImplemented) (hg : fl.doGenerate = true) :
    fromConfig fl w cfg =
      match w.gen cfg with
      | none => ⟨.error .generateRaised, w.read⟩
      | some d =>
        match applyFiltersFromConfig w d with
        | .error e => ⟨.error e, w.read⟩
        | .ok d' => checkAndSave fl w cfg (some (.ds d')) false true :=
  fromConfig_regen fl w cfg hc hd hg

/-- REGENERATES, world that generates `fresh`: the result IS the fresh dataset, marked generated / not loaded; with
    `save_local` a save is issued (returned object and file = `saveImage fresh`), and unless that write is cut the
    file afterwards reads back as exactly the returned dataset; if it is cut the request raises and the file holds
    whatever the cut left. -/
theorem C11_regenerates_fresh {μ} (fl : Flags) (w : World μ) (cfg : Cfg) (fresh : DS μ)
    (hc : fl.loadLocal = false ∨ w.read = .absent ∨ w.read = .raises)
    (hd : fl.doDownload = false ∨ w.download = .notImplemented) (hg : fl.doGenerate = true)
    (hf : Fresh w cfg fresh) :
    (fl.saveLocal = true → w.saveCut = none →
      fromConfig fl w cfg = ⟨.ok ⟨saveImage w fresh, false, true, false, true⟩, .okDs (saveImage w fresh)⟩) ∧
    (fl.saveLocal = true → ∀ junk, w.saveCut = some junk →
      fromConfig fl w cfg = ⟨.error .saveInterrupted, junk⟩) ∧
    (fl.saveLocal = false →
      fromConfig fl w cfg = ⟨.ok ⟨fresh, false, true, false, false⟩, w.read⟩) :=
  ⟨regen_fresh_uncut fl w cfg fresh hc hd hg hf,
   fun hs junk hcut => regen_fresh_cut fl w cfg fresh junk hc hd hg hf hs hcut,
   regen_fresh_nosave fl w cfg fresh hc hd hg hf⟩

/-- faithful `generate` (the dataset carries a copy of the request config, maze_dataset.py:292) and faithful,
    non-raising registered filters make `Fresh` hold: the regenerated dataset always passes the config check. -/
theorem C11_fresh_exists {μ} (w : World μ) (cfg : Cfg) (d0 : DS μ) (hgen : w.gen cfg = some d0) (hcfg : d0.cfg = cfg)
    (hf : FaithfulFilters w)
    (ht : ∀ fi ∈ cfg.filters, w.known fi.name = true ∧ ∀ d, (w.applyFilter fi d).isSome) :
    ∃ fresh, Fresh w cfg fresh := by
  obtain ⟨fresh, h1, h2⟩ := regen_agrees w cfg d0 hcfg hf ht
  exact ⟨fresh, d0, hgen, h1, h2⟩

/-- LOADABLE FILE LEFT BEHIND: any successful request with `save_local` leaves a file that reads
    back as exactly the dataset it returned (loaded: the file was that already; otherwise it was just saved). -/
theorem C11_leaves_loadable_file {μ} (fl : Flags) (w : World μ) (cfg : Cfg) (r : Res μ)
    (h : (fromConfig fl w cfg).res = .ok r) (hs : fl.saveLocal = true) :
    (fromConfig fl w cfg).fileAfter = .okDs r.out := by
  obtain ⟨d, hp, heq⟩ := fromConfig_ok fl w cfg r h
  rw [heq] at h ⊢
  obtain ⟨d', ho, _, hout, _, _, _, hsv, hfa, _⟩ := checkAndSave_ok fl w cfg _ _ _ r h
  simp only [Option.some.injEq, Obj.ds.injEq] at ho
  subst ho
  rw [hfa]
  cases hdl : r.didLoadLocal with
  | false => rw [hsv, hs, hdl]; simp
  | true =>
    rw [hdl] at hp
    have hs' : r.saved = false := by rw [hsv, hdl]; simp
    rw [hs']
    simp only [Bool.false_eq_true, ↓reduceIte]
    rw [hp.inv_true.2.1, hout, hs']
    simp

/-- FIXED POINT after a cache hit: the request that follows one served from the file is served from the file again:
    same dataset, nothing generated, nothing written (all flags, all worlds). -/
theorem C11_second_call_after_hit {μ} (fl : Flags) (w : World μ) (cfg : Cfg) (r : Res μ)
    (h : (fromConfig fl w cfg).res = .ok r) (hl : r.didLoadLocal = true) (cut : Option (ReadOutcome μ)) :
    fromConfig fl { w with read := (fromConfig fl w cfg).fileAfter, saveCut := cut } cfg =
      ⟨.ok ⟨r.out, true, false, r.warned, false⟩, .okDs r.out⟩ := by
  obtain ⟨h1, h2, _, _, hfa, _⟩ := C11_uses_cache_only_if_match fl w cfg r h hl
  obtain ⟨d, hp, heq⟩ := fromConfig_ok fl w cfg r h
  rw [heq] at h
  obtain ⟨d', ho, hpass, hout, _, _, hw, hs, _⟩ := checkAndSave_ok fl w cfg _ _ _ r h
  simp only [Option.some.injEq, Obj.ds.injEq] at ho
  subst ho
  have hs' : r.saved = false := by rw [hs, hl]; simp
  have hout' : r.out = d := by rw [hout, hs']; simp
  rw [hfa, h2, cached_passes fl _ cfg r.out h1 rfl (by rw [hout']; exact hpass), hw, hout']

/-- FIXED POINT after a regeneration: with `load_local`, `save_local`, the allowance on (or a save that is not a
    collecting minimal save), the request that follows a regenerate-and-save is served from the file that save wrote:
    the same dataset object content, nothing generated, nothing written. This is the clause the unrepaired allowance
    (`self == []` only) broke for configs with filters and ≥ `SERIALIZE_MINIMAL_THRESHOLD` mazes. -/
theorem C11_second_call_after_regen {μ} (fl : Flags) (w : World μ) (cfg : Cfg) (fresh : DS μ)
    (hc : fl.loadLocal = false ∨ w.read = .absent ∨ w.read = .raises)
    (hd : fl.doDownload = false ∨ w.download = .notImplemented) (hg : fl.doGenerate = true)
    (hf : Fresh w cfg fresh) (hl : fl.loadLocal = true) (hs : fl.saveLocal = true) (hcut : w.saveCut = none)
    (ha : fl.allowMetaMismatch = true ∨ minimalSave w fresh = false) (cut : Option (ReadOutcome μ)) :
    (fromConfig fl w cfg).res = .ok ⟨saveImage w fresh, false, true, false, true⟩ ∧
    ∃ wn, fromConfig fl { w with read := (fromConfig fl w cfg).fileAfter, saveCut := cut } cfg =
      ⟨.ok ⟨saveImage w fresh, true, false, wn, false⟩, .okDs (saveImage w fresh)⟩ := by
  rw [regen_fresh_uncut fl w cfg fresh hc hd hg hf hs hcut]
  exact ⟨rfl, _, cached_passes fl { w with read := .okDs (saveImage w fresh), saveCut := cut } cfg (saveImage w fresh) hl rfl
    (saveImage_passes fl w cfg fresh hf.choose_spec.2.2 ha)⟩

/-! ## every sequence of faults and (possibly interrupted) requests -/

/-- a step that only damages: the file is removed / made unreadable / left readable-and-intact, or a request
    whose save, if cut, leaves such a state -/
def DamageStep {μ} (stored : DS μ) : Step μ → Prop
  | .fault f => Damaged stored f
  | .call none => True
  | .call (some junk) => Damaged stored junk

/-- HEALS AFTER ANY FAULT SEQUENCE: default-style flags (`load_local`, `save_local`, `do_generate`, the allowance on
    or no collecting minimal save), nothing downloadable, a world that generates `fresh` for `cfg`; `stored` =
    `saveImage w fresh` is what a completed save writes. Starting from any damaged file state, for EVERY finite
    sequence of damaging faults and requests — each request's save possibly cut at an arbitrary point — every
    request either returns exactly `stored` and leaves a file that reads back as `stored`, or is the one whose own
    save was cut (`saveInterrupted`); the file state stays within `Damaged` throughout. No request ever returns
    anything else, and none raises a config mismatch. -/
theorem C11_heals_any_fault_sequence {μ} (fl : Flags) (w : World μ) (cfg : Cfg) (fresh : DS μ)
    (hl : fl.loadLocal = true) (hs : fl.saveLocal = true) (hg : fl.doGenerate = true)
    (hd : fl.doDownload = false ∨ w.download = .notImplemented) (hf : Fresh w cfg fresh)
    (ha : fl.allowMetaMismatch = true ∨ minimalSave w fresh = false) :
    ∀ (steps : List (Step μ)) (file : ReadOutcome μ),
      (∀ s ∈ steps, DamageStep (saveImage w fresh) s) → Damaged (saveImage w fresh) file →
      Damaged (saveImage w fresh) (runSteps fl w cfg steps file).2 ∧
      ∀ o ∈ (runSteps fl w cfg steps file).1,
        (∃ r, o.res = .ok r ∧ r.out = saveImage w fresh ∧ o.fileAfter = .okDs (saveImage w fresh)) ∨
        (o.res = .error .saveInterrupted ∧ Damaged (saveImage w fresh) o.fileAfter) := by
  intro steps
  induction steps with
  | nil => intro file _ hfile; exact ⟨hfile, by simp [runSteps]⟩
  | cons s rest ih =>
    intro file hsteps hfile
    have hrest : ∀ s ∈ rest, DamageStep (saveImage w fresh) s := fun s hm => hsteps s (by simp [hm])
    have hs0 : DamageStep (saveImage w fresh) s := hsteps s (by simp)
    cases s with
    | fault f => exact ih f hrest hs0
    | call cut =>
      -- the world this request sees
      let w' : World μ := { w with read := file, saveCut := cut }
      have hf' : Fresh w' cfg fresh := by
        obtain ⟨d0, h1, h2, h3⟩ := hf
        exact ⟨d0, h1, by rw [applyFilters_congr w w' rfl rfl rfl]; exact h2, h3⟩
      have himg : saveImage w' fresh = saveImage w fresh := rfl
      -- outcome of this request
      have key : (∃ r, (fromConfig fl w' cfg).res = .ok r ∧ r.out = saveImage w fresh ∧
              (fromConfig fl w' cfg).fileAfter = .okDs (saveImage w fresh)) ∨
          ((fromConfig fl w' cfg).res = .error .saveInterrupted ∧
              Damaged (saveImage w fresh) (fromConfig fl w' cfg).fileAfter) := by
        have hregen : NoCache fl w' →
            ((∃ r, (fromConfig fl w' cfg).res = .ok r ∧ r.out = saveImage w fresh ∧
                (fromConfig fl w' cfg).fileAfter = .okDs (saveImage w fresh)) ∨
            ((fromConfig fl w' cfg).res = .error .saveInterrupted ∧
                Damaged (saveImage w fresh) (fromConfig fl w' cfg).fileAfter)) := fun hc => by
          cases hcut : cut with
          | none =>
            left
            rw [regen_fresh_uncut fl w' cfg fresh hc hd hg hf' hs (by simp [w', hcut]), himg]
            exact ⟨_, rfl, rfl, rfl⟩
          | some junk =>
            right
            rw [regen_fresh_cut fl w' cfg fresh junk hc hd hg hf' hs (by simp [w', hcut])]
            have : DamageStep (saveImage w fresh) (.call (some junk)) := hcut ▸ hs0
            exact ⟨rfl, this⟩
        rcases hfile with hfl | hfl | hfl
        · exact hregen (Or.inr (Or.inl hfl))
        · exact hregen (Or.inr (Or.inr hfl))
        · left
          rw [cached_passes fl w' cfg (saveImage w fresh) hl hfl
            (saveImage_passes fl w cfg fresh hf.choose_spec.2.2 ha)]
          exact ⟨_, rfl, rfl, rfl⟩
      have hfile' : Damaged (saveImage w fresh) (fromConfig fl w' cfg).fileAfter := by
        rcases key with ⟨r, _, _, h3⟩ | ⟨_, h2⟩
        · exact Or.inr (Or.inr h3)
        · exact h2
      obtain ⟨ih1, ih2⟩ := ih (fromConfig fl w' cfg).fileAfter hrest hfile'
      refine ⟨ih1, ?_⟩
      intro o ho
      simp only [runSteps, List.mem_cons] at ho
      rcases ho with rfl | ho
      · exact key
      · exact ih2 o ho

/-- …and for ARBITRARY faults (foreign datasets, other objects, anything) and arbitrary worlds: every request of
    the sequence that returns at all returns a dataset that passed the config check (up to `SaveRel`). -/
theorem C11_never_wrong_any_sequence {μ} (fl : Flags) (w : World μ) (cfg : Cfg) (he : fl.exceptOnMismatch = true) :
    ∀ (steps : List (Step μ)) (file : ReadOutcome μ),
      ∀ o ∈ (runSteps fl w cfg steps file).1, ∀ r, o.res = .ok r →
        ∃ d, (AgreeModN cfg d.cfg ∨ (fl.allowMetaMismatch = true ∧ MetaOnly cfg d.cfg)) ∧ SaveRel d r.out := by
  intro steps
  induction steps with
  | nil => intro file o ho; simp [runSteps] at ho
  | cons s rest ih =>
    intro file o ho r hr
    cases s with
    | fault f => exact ih f o ho r hr
    | call cut =>
      simp only [runSteps, List.mem_cons] at ho
      rcases ho with rfl | ho
      · obtain ⟨d, h1, h2, _⟩ := C11_never_wrong fl _ cfg r he hr
        exact ⟨d, h1, by
          rcases h2 with h2 | h2
          · exact Or.inl h2
          · exact Or.inr h2⟩
      · exact ih _ o ho r hr

/-- with the allowance switched OFF, a collecting minimal save leaves a file that the very same request then rejects
    (documented behaviour of `allow_generation_metadata_filter_mismatch=False`; NOT the default) -/
theorem C11_allowance_off_rejects_own_minimal_save {μ} (fl : Flags) (w : World μ) (cfg : Cfg) (fresh : DS μ)
    (hl : fl.loadLocal = true) (he : fl.exceptOnMismatch = true) (ha : fl.allowMetaMismatch = false)
    (hf : Fresh w cfg fresh) (hm : minimalSave w fresh = true) (hr : w.read = .okDs (saveImage w fresh)) :
    (fromConfig fl w cfg).res = .error (.configMismatch (diff cfg (saveImage w fresh).cfg)) := by
  rw [cached_rejects fl w cfg _ hl hr
    (saveImage_rejected_without_allowance fl w cfg fresh hf.choose_spec.2.2 hm ha he)]

/-- the defaults of `from_config` (generated from the signature) are the flags the theorems above need -/
theorem C11_default_flags : defaultFlags? = some ⟨true, true, true, true, true, true⟩ := by decide

/-- `C11_full` holds — note that its clause (3) is conditional on `Damaged`, the unproved store assumption. -/
theorem C11_full_holds : C11_full := by
  intro μ fl hfl w cfg
  rw [C11_default_flags] at hfl
  simp only [Option.some.injEq] at hfl
  subst hfl
  refine ⟨?_, ?_, ?_⟩
  · intro r h
    obtain ⟨d, h1, h2, _⟩ := C11_never_wrong _ w cfg r rfl h
    refine ⟨d, ?_, h2⟩
    rcases h1 with h1 | ⟨_, h1⟩
    · exact Or.inl h1
    · exact Or.inr h1
  · intro d hr hna hnm
    have := C11_mismatch_raises ⟨true, true, true, true, true, true⟩ w cfg d rfl rfl hr hna
      (fun ⟨_, hma⟩ => hnm (metaAllowed_spec _ _ hma))
    exact ⟨this.1, this.2.1⟩
  · intro fresh hf hdl hcut hdam
    rcases hdam with hfl | hfl | hfl
    · rw [regen_fresh_uncut _ w cfg fresh (Or.inr (Or.inl hfl)) (Or.inr hdl) rfl hf rfl hcut]
      exact ⟨_, rfl, rfl, rfl⟩
    · rw [regen_fresh_uncut _ w cfg fresh (Or.inr (Or.inr hfl)) (Or.inr hdl) rfl hf rfl hcut]
      exact ⟨_, rfl, rfl, rfl⟩
    · rw [cached_passes _ w cfg _ rfl hfl (saveImage_passes _ w cfg fresh hf.choose_spec.2.2 (Or.inl rfl))]
      exact ⟨_, rfl, rfl, rfl⟩

/-! ## non-vacuity: a concrete world (datasets of `Nat`-coded mazes, one registered filter) -/

private def cfgA : Cfg := ⟨[("name", "\"t\""), ("seed", "42"), ("grid_n", "3"), ("n_mazes", "4")], [⟨"path_length", [], [("min_length", "3")]⟩]⟩
private def cfgB : Cfg := ⟨[("name", "\"t\""), ("seed", "7"), ("grid_n", "3"), ("n_mazes", "4")], [⟨"path_length", [], [("min_length", "3")]⟩]⟩
private def cfgN : Cfg := ⟨[("name", "\"t\""), ("seed", "42"), ("grid_n", "3"), ("n_mazes", "2")], [⟨"path_length", [], [("min_length", "3")]⟩]⟩
private def wA (read : ReadOutcome (List Nat)) (cut : Option (ReadOutcome (List Nat))) : World (List Nat) :=
  { read := read, download := .notImplemented,
    gen := fun c => some ⟨c, [1, 2, 3, 4]⟩,
    known := fun n => n == "path_length",
    applyFilter := fun fi d => some ⟨⟨d.cfg.fields, d.cfg.filters ++ [fi]⟩, d.mazes.filter (· > 2)⟩,
    len := List.length, collected := fun d => d.cfg.filters.contains cgmRec, strip := id, saveCut := cut }
/-- same world, but every maze counts 50: two surviving mazes reach `SERIALIZE_MINIMAL_THRESHOLD` (100) -/
private def wBig (read : ReadOutcome (List Nat)) (cut : Option (ReadOutcome (List Nat))) : World (List Nat) :=
  { wA read cut with len := fun l => 50 * l.length }
private def dflt : Flags := ⟨true, true, true, true, true, true⟩
private def freshA : DS (List Nat) := ⟨⟨[("name", "\"t\""), ("seed", "42"), ("grid_n", "3"), ("n_mazes", "2")], cfgA.filters⟩, [3, 4]⟩

-- never_wrong / regenerates: an unreadable file is regenerated, filtered (n_mazes 4 → 2), saved
example : (fromConfig dflt (wA .raises none) cfgA).res.toOption.map (fun r => (r.out.mazes, r.generated, r.saved, r.out.cfg.fields.lookup "n_mazes"))
    = some ([3, 4], true, true, some "2") := by decide
example : Fresh (wA .raises none) cfgA freshA := ⟨⟨cfgA, [1, 2, 3, 4]⟩, rfl, by rfl, by decide⟩
-- uses_cache_only_if_match / leaves_loadable_file / second_call_hits: a file with only n_mazes different is served, not rewritten
example : (fromConfig dflt (wA (.okDs ⟨cfgN, [9, 9]⟩) none) cfgA).res.toOption.map (fun r => (r.out.mazes, r.didLoadLocal, r.generated, r.saved))
    = some ([9, 9], true, false, false) := by decide
-- mismatch_raises: a foreign seed under the requested name raises, naming the field
example : (fromConfig dflt (wA (.okDs ⟨cfgB, [9, 9]⟩) none) cfgA).res.toOption.isNone ∧ diff cfgA cfgB = ["seed"] := by decide
example : ¬ AgreeModN cfgA cfgB := fun h => by
  have := (diff_nil_iff cfgA cfgB).mpr h
  revert this; decide
-- the allowance: request without filters, file with collect_generation_meta applied
example : metaAllowed ⟨cfgA.fields, []⟩ ⟨cfgA.fields, [⟨"collect_generation_meta", [], []⟩]⟩ = true := by decide
-- heals_any_fault_sequence: truncated → request cut mid-save → request → removed → request
example : ((runSteps dflt (wA .absent none) cfgA
      [.fault .raises, .call (some .raises), .call none, .fault .absent, .call none, .call none] .absent).1.map
      (fun o => o.res.toOption.map (fun r => (r.out.mazes, r.generated))))
    = [none, some ([3, 4], true), some ([3, 4], true), some ([3, 4], false)] := by decide
example : ∀ s ∈ [Step.fault (.raises : ReadOutcome (List Nat)), .call (some .raises), .call none, .fault .absent, .call none],
    DamageStep freshA s := by
  intro s hs
  simp only [List.mem_cons, List.mem_nil_iff, or_false] at hs
  rcases hs with rfl | rfl | rfl | rfl | rfl <;> simp [DamageStep, Damaged]
-- the minimal-format save: the returned dataset and the file carry the request's filters + collect_generation_meta,
-- and the NEXT request (config WITH a filter, >= 100 mazes) is served from that file (second_call_after_regen)
example : ((runSteps dflt (wBig .absent none) cfgA [.call none, .call none] .absent).1.map
      (fun o => o.res.toOption.map (fun r => (r.out.mazes, r.generated, r.didLoadLocal, r.out.cfg.filters.map (·.name)))))
    = [some ([3, 4], true, false, ["path_length", "collect_generation_meta"]),
       some ([3, 4], false, true, ["path_length", "collect_generation_meta"])] := by decide
example : minimalSave (wBig .absent none) ⟨cfgA, [3, 4]⟩ = true ∧ minimalSave (wA .absent none) ⟨cfgA, [3, 4]⟩ = false := by decide
-- allowance off: the same two requests, the second one raises
example : ((runSteps ⟨true, true, true, true, true, false⟩ (wBig .absent none) cfgA [.call none, .call none] .absent).1.map
      (fun o => o.res.toOption.isSome)) = [true, false] := by decide
example : C11_full := C11_full_holds

end MZ.Cache
