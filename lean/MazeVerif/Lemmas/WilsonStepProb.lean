import MazeVerif.Lemmas.WilsonProb
/-! Facts about the Wilson step machine needed by the C19 theorems: an unfinished state always has a next draw,
    the start distribution is a probability distribution, positive probability yields a concrete accepted draw list,
    and what a `tableOK` evaluation means. -/
namespace MZ.WProb
open MZ.WStep

/-! ### generic: positive value ⇒ a run -/

variable {σ : Type} (M : Machine σ)

/-- `Reaches s ds t`: feeding the draws `ds` (each within its range) to the machine started in the unfinished...
    state `s` ends exactly in the finished state `t` -/
inductive Reaches : σ → List Nat → σ → Prop
  | done {s} : M.fin s = true → Reaches s [] s
  | step {s k ds t} : M.fin s = false → k < M.arity s → Reaches (M.next s k) ds t → Reaches s (k :: ds) t

theorem sum_pos_exists {α : Type} {l : List α} {f : α → Rat} (h : 0 < (l.map f).sum) : ∃ x ∈ l, 0 < f x := by
  by_contra hc
  have hall : ∀ x ∈ l, f x ≤ 0 := fun x hx => not_lt.mp fun hp => hc ⟨x, hx, hp⟩
  have := sum_map_le (l := l) (f := f) (g := fun _ => (0 : Rat)) hall
  simp at this
  linarith

theorem val_pos_reaches (tgt : σ → Bool) :
    ∀ n s, 0 < val M tgt n s → ∃ ds t, ds.length ≤ n ∧ Reaches M s ds t ∧ tgt t = true
  | 0, s, h => by
    simp only [val, ind] at h
    split at h
    · rename_i hb
      simp only [Bool.and_eq_true] at hb
      exact ⟨[], s, le_refl _, Reaches.done hb.1, hb.2⟩
    · exact absurd h (lt_irrefl _)
  | n + 1, s, h => by
    rw [val_succ] at h
    cases hf : M.fin s
    · simp only [hf, Bool.false_eq_true, if_false] at h
      unfold avg at h
      have hnum : 0 < ((List.range (M.arity s)).map fun k => val M tgt n (M.next s k)).sum := by
        by_contra hc
        have hc' := not_lt.mp hc
        have : ((List.range (M.arity s)).map fun k => val M tgt n (M.next s k)).sum / (M.arity s : Rat) ≤ 0 :=
          div_nonpos_of_nonpos_of_nonneg hc' (Nat.cast_nonneg _)
        linarith
      obtain ⟨k, hk, hpos⟩ := sum_pos_exists hnum
      obtain ⟨ds, t, hl, hr, ht⟩ := val_pos_reaches tgt n _ hpos
      exact ⟨k :: ds, t, by simp; omega, Reaches.step hf (List.mem_range.mp hk) hr, ht⟩
    · simp only [hf, if_true, ind] at h
      split at h
      · rename_i hb
        exact ⟨[], s, Nat.zero_le _, Reaches.done hf, hb⟩
      · exact absurd h (lt_irrefl _)

theorem expect_pos_exists {f : σ → Rat} {d : List (σ × Rat)} (h : 0 < expect f d) : ∃ x ∈ d, 0 < x.2 * f x.1 := by
  unfold expect at h
  exact sum_pos_exists h

/-! ### the Wilson machine -/

theorem nbrsOf_ne_nil {rows cols : Nat} (h : 1 < rows * cols) (i : Nat) : nbrsOf rows cols i ≠ [] := by
  unfold nbrsOf
  simp only
  have hc0 : 0 < cols := Nat.pos_of_ne_zero (by rintro rfl; simp at h)
  by_cases hc : 2 ≤ cols
  · have hlt : i % cols < cols := Nat.mod_lt _ hc0
    by_cases h1 : i % cols + 1 < cols
    · simp [h1]
    · have h2 : 1 ≤ i % cols := by omega
      simp [h2]
  · have hc1 : cols = 1 := by omega
    subst hc1
    have hr : 2 ≤ rows := by omega
    by_cases h1 : i / 1 + 1 < rows
    · simp; omega
    · simp; omega

theorem arity_pos {rows cols : Nat} (h : 1 < rows * cols) (s : WS) (hf : finished rows cols s = false) :
    0 < arity rows cols s := by
  unfold arity
  cases hl : s.path.getLast? with
  | none =>
    simp only
    have hp : s.path = [] := List.getLast?_eq_none_iff.mp hl
    unfold finished at hf
    simp only [hp, List.isEmpty_nil, Bool.true_and] at hf
    cases hu : unvisited rows cols s.vis with
    | nil => simp [hu] at hf
    | cons a l => simp
  | some cur =>
    simp only
    exact List.length_pos_of_ne_nil (nbrsOf_ne_nil h cur)

theorem wilson_arity_pos {rows cols : Nat} (h : 1 < rows * cols) :
    ∀ s, (wilson rows cols).fin s = false → 0 < (wilson rows cols).arity s := fun s hf => arity_pos h s hf

theorem starts_ne_nil (rows cols : Nat) : starts rows cols ≠ [] := by
  unfold starts
  have h1 : 0 < max (rows - 1) 1 := by omega
  have h2 : 0 < max (cols - 1) 1 := by omega
  intro hnil
  have : ({ vis := 1 <<< (0 * cols + 0), edges := 0, path := [] } : WS) ∈
      (List.range (max (rows - 1) 1)).flatMap fun r => (List.range (max (cols - 1) 1)).map fun c =>
        ({ vis := 1 <<< (r * cols + c), edges := 0, path := [] } : WS) :=
    List.mem_flatMap.mpr ⟨0, List.mem_range.mpr h1, List.mem_map.mpr ⟨0, List.mem_range.mpr h2, rfl⟩⟩
  rw [hnil] at this
  exact absurd this List.not_mem_nil

theorem start_weights_nonneg (rows cols : Nat) : ∀ x ∈ start rows cols, 0 ≤ x.2 := by
  intro x hx
  simp only [start, List.mem_map] at hx
  obtain ⟨s, _, rfl⟩ := hx
  exact div_nonneg (by norm_num) (Nat.cast_nonneg _)

theorem start_total (rows cols : Nat) : expect (fun _ => (1 : Rat)) (start rows cols) = 1 := by
  have hlen : (0 : Rat) < ((starts rows cols).length : Rat) := by
    exact_mod_cast List.length_pos_of_ne_nil (starts_ne_nil rows cols)
  simp only [start, expect, List.map_map, Function.comp_def, mul_one]
  have := sum_map_mul_left' (starts rows cols) (1 / ((starts rows cols).length : Rat)) (fun _ => (1 : Rat))
  simp only [mul_one] at this
  rw [this, sum_map_const_one]
  field_simp


theorem reaches_runFrom {rows cols : Nat} {s t : WS} {ds : List Nat} (h : Reaches (wilson rows cols) s ds t) :
    ∀ fuel, ds.length ≤ fuel → runFrom rows cols s ds fuel = some (t, []) := by
  induction h with
  | done hf =>
    intro fuel _
    have hf' : finished rows cols _ = true := hf
    cases fuel <;> simp [runFrom, hf']
  | @step s k ds t hf hk _ ih =>
    intro fuel hl
    have hf' : finished rows cols s = false := hf
    have hk' : k < arity rows cols s := hk
    cases fuel with
    | zero => simp at hl
    | succ fuel =>
      simp only [runFrom, hf', Bool.false_eq_true, if_false, hk', if_true]
      exact ih fuel (by simpa using hl)

theorem mem_starts {rows cols : Nat} {s : WS} (h : s ∈ starts rows cols) :
    ∃ a b, a < max (rows - 1) 1 ∧ b < max (cols - 1) 1 ∧ s = { vis := 1 <<< (a * cols + b), edges := 0, path := [] } := by
  unfold starts at h
  obtain ⟨a, ha, hab⟩ := List.mem_flatMap.mp h
  obtain ⟨b, hb, rfl⟩ := List.mem_map.mp hab
  exact ⟨a, b, List.mem_range.mp ha, List.mem_range.mp hb, rfl⟩

/-- what a successful table evaluation says -/
theorem tableOK_spec {rows cols n0 N : Nat} {eps : Rat} (h : tableOK rows cols n0 N eps = true) :
    (allSpanningMasks rows cols).length = N ∧ (allSpanningMasks rows cols).Nodup ∧
    (∀ T ∈ allSpanningMasks rows cols,
      1 / (N : Rat) - eps ≤ massFin (wilson rows cols) (edgesAre T) (law rows cols n0) ∧
      massFin (wilson rows cols) (edgesAre T) (law rows cols n0) ≤ 1 / (N : Rat)) ∧
    massUnfin (wilson rows cols) (law rows cols n0) ≤ eps := by
  unfold tableOK at h
  simp only [Bool.and_eq_true, beq_iff_eq, decide_eq_true_eq, List.all_eq_true] at h
  obtain ⟨⟨⟨h1, h2⟩, h3⟩, h4⟩ := h
  exact ⟨h1, h2, h3, h4⟩

end MZ.WProb
