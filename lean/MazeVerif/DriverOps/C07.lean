import MazeVerif.DriverOps.Util
import MazeVerif.Model.LegacyTok
namespace MZ.Drv.C07
open Lean MZ.Drv MZ.LT

def jS (s : Str) : Json := Json.str (String.ofList s)
def jSs (l : List Str) : Json := Json.arr (l.map jS).toArray
def asStrs (j : Json) : R (List Str) := do (← j.getArr?).toList.mapM (fun x => do pure (← x.getStr?).toList)
def getStrs (j : Json) (k : String) : R (List Str) := do asStrs (← fld j k)

def asNCell (j : Json) : R NCell := do
  match ← asNatList j with
  | [r, c] => pure (r, c)
  | _ => throw "ncell: expected [r,c]"
def asNEdge (j : Json) : R NEdge := do
  match ← asNatList j with
  | [d, r, c] => pure (d, r, c)
  | _ => throw "nedge: expected [d,r,c]"
def asPair (j : Json) : R (NCell × NCell) := do
  match (← j.getArr?).toList with
  | [a, b] => pure ((← asNCell a), (← asNCell b))
  | _ => throw "pair: expected [[r,c],[r,c]]"
def jNCell (c : NCell) : Json := Json.arr #[jNat c.1, jNat c.2]
def jNEdge (e : NEdge) : Json := Json.arr #[jNat e.1, jNat e.2.1, jNat e.2.2]

def errName : Err → String
  | .indexError => "indexError" | .valueError => "valueError" | .assertionError => "assertionError"
  | .arrayShape => "arrayShape" | .notImplemented => "notImplemented" | .unsupported => "unsupported"

def getMaze (j : Json) : R AnyMaze := do
  let rows ← getNat j "rows"
  let cols ← getNat j "cols"
  let edges ← (← getArr j "edges").mapM asNEdge
  let m : LMaze := ⟨rows, cols, edges⟩
  match ← getStr j "kind" with
  | "lattice" => pure (.lattice m)
  | "targeted" => pure (.targeted m (← asNCell (← fld j "start")) (← asNCell (← fld j "end")))
  | "solved" => pure (.solved m (← asNCell (← fld j "start")) (← asNCell (← fld j "end")) (← (← getArr j "solution").mapM asNCell))
  | k => throw s!"unknown kind {k}"

/-- canonical edge list: sorted, duplicates removed (`connection_list` is a bit array) -/
def canonEdges (es : List NEdge) : List NEdge :=
  let key (e : NEdge) : Nat × Nat × Nat := e
  let sorted := es.mergeSort (fun a b => decide (key a = key b ∨ (a.1 < b.1 ∨ (a.1 = b.1 ∧ (a.2.1 < b.2.1 ∨ (a.2.1 = b.2.1 ∧ a.2.2 < b.2.2))))))
  sorted.eraseDups

def jMaze : AnyMaze → Json
  | .lattice m => obj [("kind", "lattice"), ("rows", jNat m.rows), ("cols", jNat m.cols), ("edges", jList jNEdge (canonEdges m.edges))]
  | .targeted m s e => obj [("kind", "targeted"), ("rows", jNat m.rows), ("cols", jNat m.cols), ("edges", jList jNEdge (canonEdges m.edges)),
      ("start", jNCell s), ("end", jNCell e)]
  | .solved m s e sol => obj [("kind", "solved"), ("rows", jNat m.rows), ("cols", jNat m.cols), ("edges", jList jNEdge (canonEdges m.edges)),
      ("start", jNCell s), ("end", jNCell e), ("solution", jList jNCell sol)]

def jResult {α} (f : α → Json) : Except Err α → Json
  | .ok x => obj [("ok", f x)]
  | .error e => obj [("err", Json.str (errName e))]

def getMode (j : Json) : R Mode := do
  match ← getStr j "mode" with
  | "AOTP_UT_rasterized" => pure .utRasterized
  | "AOTP_UT_uniform" => pure .utUniform
  | "AOTP_CTT_indexed" => pure .cttIndexed
  | m => throw s!"unknown mode {m}"

def getTokSpec (j : Json) : R TokSpec := do
  match ← getStr j "tokenizer" with
  | "legacy" => pure .legacy
  | "modular" => pure (.modular (← getBool j "legacy_equivalent"))
  | t => throw s!"unknown tokenizer {t}"

def jItem : Item → Json
  | .coord t => jNats t
  | .str s => jS s

def getWhen (j : Json) : R When := do
  match ← getStr j "when" with
  | "skip" => pure .skip | "error" => pure .error | "include" => pure .include
  | w => throw s!"unknown when {w}"

/-- ops:
 * `C07.as_tokens` {mode, kind, rows, cols, edges, [start,end,solution], adj:[[[r,c],[r,c]],…]} →
     {adj_ok, legacy:[tokens], modular:{ok:[tokens]}|{err}}
 * `C07.from_tokens` {tokenizer, legacy_equivalent, tokens:[…]} | {…, text:"…"} → {ok: maze}|{err}
 * `C07.scan` {s} → {split, pysplit, is_coord, tuple|null, strip}
 * `C07.between` {tokens, start, end, incl_start, incl_end} → {ok:[…]}|{err}; plus {list_split:[[…]]} on `sep`
 * `C07.strings_to_coords` {tokens, when} → {ok:[item]}|{err}
 * `C07.from_adj_list` {adj} → {ok: maze}|{err}
 * `C07.slice` {n, limit|null} → {count} -/
def handle (op : String) (j : Json) : R Json := do
  match op with
  | "C07.as_tokens" =>
    let mode ← getMode j
    let mz ← getMaze j
    let adj ← (← getArr j "adj").mapM asPair
    pure <| obj [("adj_ok", Json.bool (adjOK mz.base adj)),
                 ("legacy", jSs (asTokens mode mz adj)),
                 ("modular", jResult jSs (modularTokens (fromLegacy mode) mz adj))]
  | "C07.from_tokens" =>
    let tk ← getTokSpec j
    match optFld j "text" with
    | some t => pure <| jResult jMaze (fromTokensStr tk (← t.getStr?).toList)
    | none => pure <| jResult jMaze (fromTokens tk (← getStrs j "tokens"))
  | "C07.scan" =>
    let s := (← getStr j "s").toList
    pure <| obj [("split", jSs (splitUT s)), ("pysplit", jSs (pySplit s)), ("is_coord", Json.bool (strIsCoord s)),
                 ("tuple", match coordNoneable s with | some t => jNats t | none => Json.null),
                 ("strip", jS (strip s))]
  | "C07.between" =>
    let toks ← getStrs j "tokens"
    let s := (← getStr j "start").toList
    let e := (← getStr j "end").toList
    let sep := (← getStr j "sep").toList
    pure <| obj [("between", jResult jSs (tokensBetween toks s e (← getBool j "incl_start") (← getBool j "incl_end"))),
                 ("list_split", Json.arr ((splitList sep toks).map jSs).toArray)]
  | "C07.strings_to_coords" =>
    let toks ← getStrs j "tokens"
    pure <| jResult (jList jItem) (stringsToCoords toks (← getWhen j))
  | "C07.from_adj_list" =>
    let adj ← (← getArr j "adj").mapM asPair
    pure <| jResult (fun m => jMaze (.lattice m)) (fromAdjList adj)
  | "C07.slice" =>
    let n ← getNat j "n"
    let lim : Option Int := match optFld j "limit" with
      | some v => (v.getInt?).toOption
      | none => none
    pure <| obj [("picked", jNats (sliceLimit (List.range n) lim))]
  | _ => throw s!"unknown op {op}"

end MZ.Drv.C07
