"""C16 — a dataset collection is exactly the concatenation of its member datasets.
Correspondence: real MazeDatasetCollection vs. MZ.Coll model (driver op C16.collection); oracle: plain concatenation + `is`."""
import itertools, warnings
import numpy as np

RULE = ("all member-length vectors with <=5 members and entries <=3 (quick) / <=6 members, entries <=4 (thorough), every index 0<=i<len "
        "plus two past the end, members built with distinct grid sizes so that a wrong member is visible; plus random longer vectors; "
        "non-trivial = vector with at least one non-empty member; distinct = distinct length vector; later additions: random statement lists on ONE live collection against the state machine C16.machine (members resized by assignment or in place, member / collection update_self_config, .mazes, [i] with Python and numpy integers, len, dataset_lengths, cfg.n_mazes), members passed as list / tuple / generator / map / iterator, iteration, generated collections, short and shared config lists, the caller recycles the lists it built the members from and wraps .mazes in a dataset of its own")
ASSUMPTIONS = ["np.searchsorted / itertools.accumulate behave as documented (validated on every case by the correspondence)",
               "member datasets satisfy cfg.n_mazes == len (maintained by generate / filters / update_self_config; n_mazes is compare=False)"]
TRUSTED = ["parametricity: the model is polymorphic in the maze type, identity is checked with Python `is` by the harness"]

_pool = {}

def _mazes(grid_n, k, slot):
    """k distinct SolvedMaze objects of grid size grid_n (real generator + solver), private to member slot `slot`"""
    from maze_dataset import LatticeMazeGenerators, SolvedMaze
    key = (grid_n, slot)
    lst = _pool.setdefault(key, [])
    while len(lst) < k:
        m = LatticeMazeGenerators.gen_dfs(np.array([grid_n, grid_n]))
        lst.append(SolvedMaze.from_lattice_maze(m, m.generate_random_path()))
    return lst[:k]


def _build(lens):
    from maze_dataset import MazeDataset, MazeDatasetConfig
    from maze_dataset.dataset.collected_dataset import MazeDatasetCollection, MazeDatasetCollectionConfig
    members = []
    for k, n in enumerate(lens):
        g = 2 + (k % 5)
        cfg = MazeDatasetConfig(name=f"m{k}", grid_n=g, n_mazes=n)
        # fresh wrapper objects per member so that `is` identifies (member, position) uniquely
        ms = list(_mazes(g, n, k))
        members.append(MazeDataset(cfg, ms))
    ccfg = MazeDatasetCollectionConfig(name="coll", maze_dataset_configs=[d.cfg for d in members])
    return MazeDatasetCollection(ccfg, members), members


def _check(ctx, lens):
    coll, members = _build(lens)
    flat = [m for d in members for m in d.mazes]
    ids = {id(m): i for i, m in enumerate(flat)}
    n = len(flat)
    # ---- implementation observations
    impl_items = []
    for i in range(n + 2):
        try:
            x = coll[np.int64(i)] if (i + len(lens)) % 3 == 0 else coll[i]      # numpy integers index like Python ones
            impl_items.append(ids.get(id(x), -1))
        except IndexError:
            impl_items.append(None)
    impl = dict(len=len(coll), mazes=[ids.get(id(m), -1) for m in coll.mazes], lengths=list(coll.dataset_lengths),
                n_mazes=int(coll.cfg.n_mazes), items=impl_items)
    case = dict(lens=list(lens))
    ctx.case(case, nontrivial=n > 0)
    try:
        it = [ids.get(id(m), -1) for m in coll]          # iteration is indexing 0, 1, ... until IndexError
    except Exception as e:
        it = f"{type(e).__name__}"
    if it != list(range(n)):
        ctx.violate(f"iterating over a collection with member lengths {list(lens)} yields items {it}, the concatenation of the members is 0..{n - 1}", dict(case, iteration=True))
    ctx.count(f"members={len(lens)}"); ctx.count(f"zeros={sum(1 for l in lens if l == 0)}")
    # ---- oracle on the real code (property statement itself)
    if impl["len"] != n or impl["mazes"] != list(range(n)) or impl["lengths"] != list(lens) or impl["n_mazes"] != n:
        ctx.violate(f"len/mazes/lengths/n_mazes disagree for lengths {list(lens)}: {impl}", dict(case, impl=impl))
    for i in range(n):
        if impl_items[i] != i:
            ctx.violate(f"collection[{i}] is not item {i} of the concatenation for member lengths {list(lens)} (got {impl_items[i]})",
                        dict(case, index=i, got=impl_items[i]))
            break
    else:
        # counts observed AGAIN after the flattened list was read, and the members themselves: reading must not change anything
        after = dict(len=len(coll), lengths=list(coll.dataset_lengths), n_mazes=int(coll.cfg.n_mazes), member_lens=[len(d.mazes) for d in members],
                     mazes=[ids.get(id(m), -1) for m in coll.mazes])
        if after != dict(len=n, lengths=list(lens), n_mazes=n, member_lens=list(lens), mazes=list(range(n))):
            ctx.violate(f"after reading .mazes / items, len / dataset_lengths / n_mazes / the members' own lists no longer agree with the member lengths {list(lens)}: {after}",
                        dict(case, after=after))
            return case, impl, members
        # the same collection object read again in other orders (descending, random, with repeats): an answer must not depend on
        # which index was read before (anything __getitem__ remembers between calls)
        orders = [list(range(n - 1, -1, -1))]
        if n > 1:
            orders.append([ctx.rng.randrange(n) for _ in range(min(3 * n, 40))])
        for order in orders:
            prev = None
            for i in order:
                try: got = ids.get(id(coll[i]), -1)
                except IndexError: got = None
                if got != i:
                    ctx.violate(f"collection[{i}] read after collection[{prev}] is not item {i} of the concatenation for member lengths {list(lens)} (got {got})",
                                dict(case, index=i, previous_index=prev, got=got, order=order))
                    return case, impl, members
                prev = i
    return case, impl, members


def _vectors(ctx, thorough_bounds=False):
    maxm, maxe = (6, 4) if (ctx.tier == "thorough" or thorough_bounds) else (5, 3)
    for m in range(0, maxm + 1):
        yield from itertools.product(range(maxe + 1), repeat=m)


def run(ctx, thorough_bounds=False):
    warnings.filterwarnings("ignore")
    reqs, impls = [], []
    vecs = list(_vectors(ctx, thorough_bounds))
    for _ in range(200 if ctx.quick else 3000):
        m = ctx.rng.randint(1, 12)
        vecs.append(tuple(ctx.rng.choice([0, 0, 1, 2, 3, 7, ctx.rng.randint(0, 30)]) for _ in range(m)))
    for lens in vecs:
        case, impl, members = _check(ctx, lens)
        # model request: members as lists of global ids
        ids, k = [], 0
        for l in lens:
            ids.append(list(range(k, k + l))); k += l
        reqs.append(dict(op="C16.collection", members=ids, cfg_counts=list(lens)))
        impls.append((case, impl))
    ctx.exhaustive = True
    outs = ctx.driver.run_parallel(reqs)
    for (case, impl), o in zip(impls, outs):
        if "error" in o:
            ctx.disagree(f"driver error {o['error']}", case); continue
        model = dict(len=o["len"], mazes=o["mazes"], lengths=o["lengths"], n_mazes=o["n_mazes"], items=o["items"])
        ctx.traces_validated += 1
        if model != impl:
            ctx.disagree(f"model and MazeDatasetCollection differ on member lengths {case['lens']}: model={model} impl={impl}", case)
        ctx.sample(dict(lens=case["lens"], items=impl["items"], locs=o["locs"]), limit=4) if sum(case["lens"]) > 2 and 0 in case["lens"] else None
    # dynamic part of the count clause: filter members, update_self_config, counts still agree
    _after_update(ctx)
    _generated(ctx)
    if not ctx.violations: _resize_and_configs(ctx)
    if not ctx.violations: _machine(ctx)


def _machine(ctx):
    """statement lists on ONE live collection (members resized, member/collection update_self_config, .mazes, [i], len, lengths, cfg.n_mazes)
    against the state machine MZ.Coll.CState (driver op C16.machine; theorems C16_state_*). Oracle on the real code, independent of the model:
    len / [i] / dataset_lengths follow the members as they are now at every statement, and whenever every resized member has had its
    config updated since (by its own or the collection's update_self_config) cfg.n_mazes equals len. A stale `.mazes` after a later resize
    is the library's documented cached_property and is compared with the model only."""
    from maze_dataset import MazeDataset, MazeDatasetConfig
    from maze_dataset.dataset.collected_dataset import MazeDatasetCollection, MazeDatasetCollectionConfig
    rng = ctx.rng
    pool = {}
    def mz(i):
        if i not in pool: pool[i] = _mazes(2, (i % 40) + 1, 900 + i // 40)[i % 40]
        return pool[i]
    nid = [0]
    def fresh(n):
        r = list(range(nid[0], nid[0] + n)); nid[0] += n; return r
    reqs, reals, cases = [], [], []
    for case_no in range(150 if ctx.quick else 2500):
        nm = rng.randrange(0, 5)
        members = [fresh(rng.randrange(0, 4)) for _ in range(nm)]
        extra = [rng.randrange(0, 4)] if rng.random() < 0.15 else []
        own = rng.random() < 0.5
        ops = []
        for _ in range(rng.randrange(1, 25)):
            t = rng.choice(["set", "set", "mupd", "cupd", "mazes", "get", "len", "lengths", "count"])
            if t == "set": ops.append(["set", rng.randrange(0, nm + 1), fresh(rng.randrange(0, 4))])
            elif t == "mupd": ops.append(["mupd", rng.randrange(0, nm + 1)])
            elif t == "get": ops.append(["get", rng.randrange(0, 12)])
            else: ops.append([t])
        case = dict(machine=True, members=members, ops=ops, extra=extra, own_cfgs=own)
        ctx.case(case, nontrivial=any(members)); ctx.count("machine_case"); ctx.count(f"machine_ops={min(len(ops) // 5 * 5, 20)}+")
        srcs = [[mz(i) for i in l] for l in members]          # the caller's own lists, which it goes on using after the datasets are built
        ds = [MazeDataset(MazeDatasetConfig(name=f"m{k}", grid_n=2, n_mazes=len(l)), srcs[k]) for k, l in enumerate(members)]
        cfgs = [d.cfg for d in ds] if own else [MazeDatasetConfig(name=f"m{k}", grid_n=2, n_mazes=len(l)) for k, l in enumerate(members)]
        cfgs = cfgs + [MazeDatasetConfig(name=f"x{k}", grid_n=2, n_mazes=n) for k, n in enumerate(extra)]
        # the constructor takes any iterable of datasets (it stores list(maze_datasets)): lists, tuples and one-shot iterators alike
        how = rng.choice(["list", "list", "tuple", "generator", "map", "iter"])
        arg = {"list": lambda: list(ds), "tuple": lambda: tuple(ds), "generator": lambda: (d for d in ds), "map": lambda: map(lambda d: d, ds), "iter": lambda: iter(ds)}[how]()
        case["members_passed_as"] = how; ctx.count(f"members_passed_as={how}")
        c = MazeDatasetCollection(MazeDatasetCollectionConfig(name="c", maze_dataset_configs=cfgs), arg)
        for src in srcs:                                       # ... it recycles them: a dataset must not have kept the caller's list object
            if src: src.append(src[0]); src.reverse()
            else: src.append(mz(fresh(1)[0]))
        ident = {}
        def idof(m):
            for k, v in pool.items():
                if v is m: return k
            return -1
        outs, dirty, cur, cleans = [], set(), [list(l) for l in members], [True]
        for k, op in enumerate(ops):
            t = op[0]
            try:
                if t == "set":
                    d = c.maze_datasets[op[1]]; new = [mz(i) for i in op[2]]
                    how_set = (k + len(op[2]) + case_no) % 4        # a new list object, or the SAME list object edited in place by its owner
                    if how_set == 0 or not isinstance(d.mazes, list): d.mazes = new
                    elif how_set == 1: d.mazes[:] = new
                    elif how_set == 2:
                        while len(d.mazes) > 0: d.mazes.pop()
                        d.mazes.extend(new)
                    else:
                        del d.mazes[len(new):]
                        for q, m_ in enumerate(new):
                            if q < len(d.mazes): d.mazes[q] = m_
                            else: d.mazes.append(m_)
                    ctx.count(f"member_set_how={['assign', 'slice', 'pop+extend', 'del+items'][how_set]}")
                    cur[op[1]] = list(op[2]); dirty.add(op[1]); outs.append(None)
                elif t == "mupd": c.maze_datasets[op[1]].update_self_config(); dirty.discard(op[1]); outs.append(None)
                elif t == "cupd": c.update_self_config(); dirty.clear(); outs.append(None)
                elif t == "mazes":
                    outs.append([idof(m) for m in c.mazes])
                    if (k + case_no) % 2 == 0 and len(c.mazes) > 1:
                        # the caller wraps the flattened list in a dataset of its own and rearranges THAT: the collection must not follow
                        flat = MazeDataset(MazeDatasetConfig(name="flat", grid_n=2, n_mazes=len(c.mazes)), c.mazes)
                        flat.mazes.reverse(); flat.mazes.pop()
                elif t == "get": outs.append(idof(c[op[1]]))
                elif t == "len": outs.append(len(c))
                elif t == "lengths": outs.append([int(x) for x in c.dataset_lengths])
                elif t == "count": outs.append(int(c.cfg.n_mazes))
            except IndexError:
                outs.append({"error": "IndexError"})
            cleans.append(not dirty)
            flat = [i for l in cur for i in l]
            o = outs[-1]
            bad = None
            if t == "len" and o != len(flat): bad = f"len gives {o}, the members hold {len(flat)} mazes"
            elif t == "lengths" and o != [len(l) for l in cur]: bad = f"dataset_lengths gives {o}, the members hold {[len(l) for l in cur]}"
            elif t == "get" and o != (flat[op[1]] if op[1] < len(flat) else {"error": "IndexError"}):
                bad = f"collection[{op[1]}] gives maze #{o}, position {op[1]} of the concatenation of the members is {'#%d' % flat[op[1]] if op[1] < len(flat) else 'past the end (IndexError expected)'}"
            elif t == "count" and not dirty and not extra and o != len(flat):
                bad = f"cfg.n_mazes gives {o} with every member config up to date, the members hold {len(flat)} mazes"
            if bad:
                ctx.violate(f"statement {k} ({op[0]}) of {ops[:k + 1]} on a collection with members {members} (passed to the constructor as a {how}): {bad}", case); return
        reqs.append(dict(op="C16.machine", members=members, ops=ops, extra_cfg_n=sum(extra))); reals.append(outs); cases.append(dict(case, _cleans=cleans[:len(ops)]))
    for case, real, o in zip(cases, reals, ctx.driver.run_parallel(reqs)):
        ctx.traces_validated += 1
        if "error" in o and "outs" not in o:
            ctx.disagree(f"driver error {o['error']}", case); continue
        cl_h = case.pop("_cleans")
        in_range = all(op[1] < len(case["members"]) for op in case["ops"] if op[0] in ("set", "mupd"))
        # (a `set` on a member that does not exist raises IndexError in the code and changes nothing; the specification-side `dirty` counts it
        # all the same, which only makes the theorem's hypothesis stronger: there the model's clean must IMPLY the harness's)
        if o.get("clean") is not None and (list(o["clean"]) != cl_h if in_range else any(a and not b for a, b in zip(o["clean"], cl_h))):
            # the specification-side notion "no member resized since its config was last updated" (the hypothesis of C16_state_counts_invariant)
            # must be the harness's own bookkeeping of the same thing
            ctx.disagree(f"the model's `clean` flags {o['clean']} differ from the harness's own dirty-set bookkeeping {cl_h} on {case['ops']}", case)
        if o["outs"] != real:
            k = next((i for i, (a, b) in enumerate(zip(o["outs"], real)) if a != b), None)
            ctx.disagree(f"collection state machine and MazeDatasetCollection differ at statement {k} of {case['ops']} (members {case['members']}): model={o['outs'][k] if k is not None else o['outs']} impl={real[k] if k is not None else real}", case)


def _generated(ctx):
    """collections built by MazeDatasetCollection.generate / from_config from member CONFIGS (not from ready-made datasets): members
    that share name, grid size and seed and differ only in the requested maze count must each get their own count"""
    from maze_dataset import MazeDatasetConfig
    from maze_dataset.dataset.collected_dataset import MazeDatasetCollection, MazeDatasetCollectionConfig
    for lens, same in [((2, 0, 4), True), ((3, 3, 1), True), ((1, 2), False), ((0, 2, 2, 5), True)]:
        cfgs = [MazeDatasetConfig(name="shard" if same else f"g{k}", grid_n=3, n_mazes=n, seed=7) for k, n in enumerate(lens)]
        ccfg = MazeDatasetCollectionConfig(name="gen", maze_dataset_configs=cfgs)
        for how in ("generate", "from_config"):
            try:
                coll = MazeDatasetCollection.generate(ccfg, do_generate=True) if how == "generate" else \
                       MazeDatasetCollection.from_config(ccfg, do_generate=True, load_local=False, save_local=False, do_download=False)
            except TypeError:
                try: coll = MazeDatasetCollection.generate(ccfg)
                except Exception as e:
                    ctx.notes.append(f"collection {how} not callable as expected: {type(e).__name__}"); continue
            except Exception as e:
                ctx.violate(f"MazeDatasetCollection.{how} raised {type(e).__name__}: {str(e)[:150]} for member counts {list(lens)}", dict(lens=list(lens), how=how, generated=True)); continue
            n = sum(lens)
            got = dict(len=len(coll), lengths=[int(x) for x in coll.dataset_lengths], n_mazes=int(coll.cfg.n_mazes), flat=len(coll.mazes),
                       member_lens=[len(d.mazes) for d in coll.maze_datasets])
            ctx.case(dict(generated=list(lens), how=how, same=same)); ctx.count("generated_collections")
            if got != dict(len=n, lengths=list(lens), n_mazes=n, flat=n, member_lens=list(lens)):
                ctx.violate(f"MazeDatasetCollection.{how} from member configs asking for {list(lens)} mazes ({'same' if same else 'distinct'} names): "
                            f"length / per-member lengths / reported count disagree: {got}", dict(lens=list(lens), how=how, generated=True, got=got))
                return
            flat = [m for d in coll.maze_datasets for m in d.mazes]
            for i in range(n):
                if coll[i] is not flat[i]:
                    ctx.violate(f"generated collection ({list(lens)}): item {i} is not item {i} of the concatenation", dict(lens=list(lens), how=how, generated=True, index=i)); return


def _resize_and_configs(ctx):
    """(1) items looked up, THEN a member resized in place by its owner (member.update_self_config only), then items looked up again:
    item i must be item i of the concatenation of the members as they are now, and len / dataset_lengths / n_mazes must follow;
    (2) collection configs that list fewer member configs than datasets are passed, and two collections whose configs were built from
    one shared Python list: the reported count must still be the length."""
    from maze_dataset import MazeDataset, MazeDatasetConfig
    from maze_dataset.dataset.collected_dataset import MazeDatasetCollection, MazeDatasetCollectionConfig
    for lens, which, newlen in [((2, 0, 3, 0, 2), 0, 1), ((2, 0, 3, 0, 2), 2, 0), ((1, 2), 0, 0), ((3, 1, 2), 1, 3), ((0, 2), 0, 2)]:
        coll, members = _build(lens)
        n0 = sum(lens)
        for i in range(n0): coll[i]                      # populate whatever __getitem__ remembers
        d = members[which]
        pool = _mazes(2 + (which % 5), max(newlen, lens[which]), which)
        d.mazes = list(pool[:newlen])
        d.update_self_config()
        flat = [m for dd in members for m in dd.mazes]
        case = dict(lens=list(lens), resized_member=which, new_length=newlen, resize=True)
        ctx.case(case, nontrivial=True); ctx.count("resized_member_after_lookup")
        got_len, got_lens = len(coll), [int(x) for x in coll.dataset_lengths]
        if got_len != len(flat) or got_lens != [len(dd.mazes) for dd in members] or int(coll.cfg.n_mazes) != len(flat):
            ctx.violate(f"after member {which} of a collection with lengths {list(lens)} was resized to {newlen} (items had been looked up before): len {got_len}, "
                        f"dataset_lengths {got_lens}, n_mazes {coll.cfg.n_mazes} do not agree with the members ({[len(dd.mazes) for dd in members]})", case); return
        for i in range(len(flat)):
            try: ok = coll[i] is flat[i]
            except IndexError: ok = False
            if not ok:
                ctx.violate(f"after member {which} of a collection with lengths {list(lens)} was resized to {newlen} (items had been looked up before), "
                            f"collection[{i}] is not item {i} of the concatenation of the members as they are now", dict(case, index=i)); return
    # (2)
    for lens in [(2, 3, 1), (1, 1)]:
        members = []
        for k, n in enumerate(lens):
            members.append(MazeDataset(MazeDatasetConfig(name=f"m{k}", grid_n=2 + k, n_mazes=n), list(_mazes(2 + k, n, k))))
        for label, cfglist in (("no member configs", []), ("a prefix of the member configs", [members[0].cfg])):
            ctx.case(dict(short_cfg=label, lens=list(lens))); ctx.count("short_config_list")
            try:
                c = MazeDatasetCollection(MazeDatasetCollectionConfig(name="s", maze_dataset_configs=list(cfglist)), members)
            except Exception:
                continue      # refusing such a config is fine
            if int(c.cfg.n_mazes) != len(c) or len(c) != sum(lens):
                ctx.violate(f"a collection of member lengths {list(lens)} whose config lists {label} reports n_mazes={c.cfg.n_mazes} but has {len(c)} items",
                            dict(lens=list(lens), short_cfg=label, resize=True)); return
        shared = [d.cfg for d in members]
        c1 = MazeDatasetCollection(MazeDatasetCollectionConfig(name="c1", maze_dataset_configs=shared), members)
        others = [MazeDataset(MazeDatasetConfig(name=f"m{k}", grid_n=2 + k, n_mazes=1), list(_mazes(2 + k, 1, 10 + k))) for k in range(len(lens))]
        try:
            c2 = MazeDatasetCollection(MazeDatasetCollectionConfig(name="c2", maze_dataset_configs=shared), others)
        except Exception:
            c2 = None
        ctx.case(dict(shared_cfg_list=list(lens))); ctx.count("shared_config_list")
        if int(c1.cfg.n_mazes) != len(c1) or (c2 is not None and int(c2.cfg.n_mazes) != len(c2)):
            ctx.violate(f"two collections whose configs were built from one list of member configs: first reports n_mazes={c1.cfg.n_mazes} with {len(c1)} items"
                        + (f", second n_mazes={c2.cfg.n_mazes} with {len(c2)} items" if c2 is not None else ""), dict(lens=list(lens), shared_cfg_list=True, resize=True)); return


def _after_update(ctx):
    from maze_dataset.dataset.collected_dataset import MazeDatasetCollection, MazeDatasetCollectionConfig
    for lens in [(3, 0, 2), (0, 4), (2, 2, 2)]:
        coll, members = _build(lens)
        for d in members:
            d.mazes = d.mazes[: max(0, len(d.mazes) - 1)]
        coll.__dict__.pop("mazes", None)
        coll.update_self_config()
        n = sum(len(d.mazes) for d in members)
        ctx.case(dict(update=list(lens)))
        if not (len(coll) == n == len(coll.mazes) == coll.cfg.n_mazes == sum(coll.dataset_lengths)):
            ctx.violate(f"after update_self_config counts disagree for {lens}: len={len(coll)} mazes={len(coll.mazes)} n_mazes={coll.cfg.n_mazes}",
                        dict(lens=list(lens)))


def search(ctx):
    """deeper oracle-only exploration of the real code (used when an obligation or the correspondence broke)"""
    _generated(ctx)
    if ctx.violations: return
    _resize_and_configs(ctx)
    if ctx.violations: return
    _machine(ctx)
    if ctx.violations: return
    for lens in _vectors(ctx, thorough_bounds=True):
        _check(ctx, lens)
        if ctx.violations:
            return


def replay(ctx, rp):
    case = rp.get("case", rp)
    if case.get("generated"):
        _generated(ctx); return
    if case.get("resize"):
        _resize_and_configs(ctx); return
    if case.get("machine"):
        _machine(ctx); return
    if "order" in case:
        coll, members = _build(tuple(case["lens"]))
        flat = [m for d in members for m in d.mazes]
        prev = None
        for i in list(range(len(flat))) + case["order"]:
            if coll[i] is not flat[i]:
                ctx.violate(f"replay: collection[{i}] read after collection[{prev}] is not item {i}", case); return
            prev = i
        return
    _check(ctx, tuple(case["lens"]))
