/-! Shared grid/graph core (core Lean only): cells, stored edges, the storage rule `edgeOf`,
    semantic adjacency `Adj`, reachability `Reach`. Mirrors lattice_maze.py:49-60,165-231 and generators.py. -/
namespace MZ

abbrev Cell := Int × Int
abbrev Edge := Nat × Int × Int

def inGrid (rows cols : Nat) (c : Cell) : Prop := 0 ≤ c.1 ∧ c.1 < rows ∧ 0 ≤ c.2 ∧ c.2 < cols
instance : Decidable (inGrid r c x) := by unfold inGrid; exact inferInstance

/-- the four candidates in `NEIGHBORS_MASK` order -/
def nbrs (c : Cell) : List Cell := [(c.1, c.2+1), (c.1, c.2-1), (c.1+1, c.2), (c.1-1, c.2)]

/-- storage rule shared by nodes_connected / gen_dfs / gen_wilson -/
def edgeOf (a b : Cell) : Edge :=
  let d1 := b.1 - a.1
  let d2 := b.2 - a.2
  let dim : Nat := if d1.natAbs ≥ d2.natAbs then 0 else 1
  let node := if d1 + d2 > 0 then a else b
  (dim, node.1, node.2)

/-- the two cells an edge joins -/
def ends (e : Edge) : Cell × Cell :=
  if e.1 = 0 then ((e.2.1, e.2.2), (e.2.1 + 1, e.2.2)) else ((e.2.1, e.2.2), (e.2.1, e.2.2 + 1))

/-- semantic adjacency in an edge list (independent of `edgeOf`) -/
def Adj (E : List Edge) (a b : Cell) : Prop :=
  (b = (a.1 + 1, a.2) ∧ (0, a.1, a.2) ∈ E) ∨ (a = (b.1 + 1, b.2) ∧ (0, b.1, b.2) ∈ E) ∨
  (b = (a.1, a.2 + 1) ∧ (1, a.1, a.2) ∈ E) ∨ (a = (b.1, b.2 + 1) ∧ (1, b.1, b.2) ∈ E)

inductive Reach (E : List Edge) : Cell → Cell → Prop
  | refl (a) : Reach E a a
  | step {a b c} : Reach E a b → Adj E b c → Reach E a c

theorem Adj.mono {E E' : List Edge} (h : ∀ e ∈ E, e ∈ E') {a b} : Adj E a b → Adj E' a b := by
  unfold Adj; rintro (⟨h1,h2⟩|⟨h1,h2⟩|⟨h1,h2⟩|⟨h1,h2⟩)
  · exact Or.inl ⟨h1, h _ h2⟩
  · exact Or.inr (Or.inl ⟨h1, h _ h2⟩)
  · exact Or.inr (Or.inr (Or.inl ⟨h1, h _ h2⟩))
  · exact Or.inr (Or.inr (Or.inr ⟨h1, h _ h2⟩))

theorem Reach.mono {E E' : List Edge} (h : ∀ e ∈ E, e ∈ E') {a b} (r : Reach E a b) : Reach E' a b := by
  induction r with
  | refl => exact .refl _
  | step _ hadj ih => exact .step ih (hadj.mono h)

theorem Adj.symm {E a b} : Adj E a b → Adj E b a := by
  unfold Adj; rintro (h|h|h|h)
  · exact Or.inr (Or.inl h)
  · exact Or.inl h
  · exact Or.inr (Or.inr (Or.inr h))
  · exact Or.inr (Or.inr (Or.inl h))

theorem Reach.trans {E a b c} (h1 : Reach E a b) (h2 : Reach E b c) : Reach E a c := by
  induction h2 with
  | refl => exact h1
  | step _ hadj ih => exact .step ih hadj

theorem Reach.symm {E a b} (h : Reach E a b) : Reach E b a := by
  induction h with
  | refl => exact .refl _
  | step _ hadj ih => exact Reach.trans (.step (.refl _) hadj.symm) ih

theorem edgeOf_right (c1 c2 : Int) : edgeOf (c1, c2) (c1, c2 + 1) = (1, c1, c2) := by
  have h1 : (c1 - c1 + (c2 + 1 - c2) > 0) := by omega
  have h2 : ¬ ((c1 - c1).natAbs ≥ (c2 + 1 - c2).natAbs) := by omega
  simp only [edgeOf, h1, h2, if_true, if_false]
theorem edgeOf_left (c1 c2 : Int) : edgeOf (c1, c2) (c1, c2 - 1) = (1, c1, c2 - 1) := by
  have h1 : ¬ (c1 - c1 + (c2 - 1 - c2) > 0) := by omega
  have h2 : ¬ ((c1 - c1).natAbs ≥ (c2 - 1 - c2).natAbs) := by omega
  simp only [edgeOf, h1, h2, if_true, if_false]
theorem edgeOf_down (c1 c2 : Int) : edgeOf (c1, c2) (c1 + 1, c2) = (0, c1, c2) := by
  have h1 : (c1 + 1 - c1 + (c2 - c2) > 0) := by omega
  have h2 : ((c1 + 1 - c1).natAbs ≥ (c2 - c2).natAbs) := by omega
  simp only [edgeOf, h1, h2, if_true, if_false]
theorem edgeOf_up (c1 c2 : Int) : edgeOf (c1, c2) (c1 - 1, c2) = (0, c1 - 1, c2) := by
  have h1 : ¬ (c1 - 1 - c1 + (c2 - c2) > 0) := by omega
  have h2 : ((c1 - 1 - c1).natAbs ≥ (c2 - c2).natAbs) := by omega
  simp only [edgeOf, h1, h2, if_true, if_false]

/-- all cells of the grid, row-major (`np.where` / `np.ndindex` order) -/
def cells (rows cols : Nat) : List Cell :=
  (List.range rows).flatMap fun (i : Nat) => (List.range cols).map fun (j : Nat) => ((i : Int), (j : Int))

/-- consecutive cells of a walk are lattice neighbours -/
def Chain : List Cell → Prop
  | [] => True
  | [_] => True
  | a :: b :: rest => b ∈ nbrs a ∧ Chain (b :: rest)

/-- edges written for a walk: `edgeOf path[i] path[i+1]` -/
def pathEdges : List Cell → List Edge
  | [] => []
  | [_] => []
  | a :: b :: rest => edgeOf a b :: pathEdges (b :: rest)

/-- well-formed connection structure for a `rows × cols` grid: every stored edge has a legal dimension and joins two
    cells of the grid (equivalently: the last row of dim 0 and the last column of dim 1 are clear and nothing lies
    outside the array) — "no connection leaves the grid" -/
def WF (rows cols : Nat) (E : List Edge) : Prop :=
  ∀ e ∈ E, (e.1 = 0 ∨ e.1 = 1) ∧ inGrid rows cols (ends e).1 ∧ inGrid rows cols (ends e).2

instance {rows cols : Nat} {E : List Edge} : Decidable (WF rows cols E) := by unfold WF; exact inferInstance

end MZ
