import MazeVerif.Model.Grid
/-! Model of `LatticeMaze.get_coord_neighbors` and `gen_connected_component_from` (lattice_maze.py:233-265). Core only. -/
namespace MZ

/-- `nodes_connected(a, b)` for a lattice neighbour `b` of `a` (lattice_maze.py:176-186): the stored bit of `edgeOf a b` -/
def connected (E : List Edge) (a b : Cell) : Bool := E.contains (edgeOf a b)

/-- `get_coord_neighbors(c)`: the four candidates in `NEIGHBORS_MASK` order, kept when in bounds and connected -/
def coordNeighbors (rows cols : Nat) (E : List Edge) (c : Cell) : List Cell :=
  (nbrs c).filter fun nb => decide (inGrid rows cols nb) && connected E c nb

/-- the `while stack:` loop of `gen_connected_component_from`; `stack` top = last element; `vis` in insertion order
    (the Python `set` is compared as a set). Duplicates may sit on the stack exactly as in the code. -/
def componentLoop (N : Cell → List Cell) : Nat → List Cell → List Cell → Option (List Cell)
  | 0, _, _ => none
  | fuel + 1, stack, vis =>
    match stack.getLast? with
    | none => some vis
    | some cur =>
      let vis' := if cur ∈ vis then vis else vis ++ [cur]
      let push := (N cur).filter (fun nb => nb ∉ vis')
      componentLoop N fuel (stack.dropLast ++ push) vis'

def componentFrom (rows cols : Nat) (E : List Edge) (c : Cell) (fuel : Nat) : Option (List Cell) :=
  componentLoop (coordNeighbors rows cols E) fuel [c] []

end MZ
