import MazeVerif.Model.DatasetGen
/-! Structural lemmas about `generateSerial` (Model/DatasetGen.lean): length, splitting a run of `k + m` items into a run
    of `k` and a run of `m` on what the first left, prefixes, "every item is the output of one helper call", and the
    bookkeeping lemma that justifies the leftover of the dfs_percolation generator. -/
namespace MZ

/-- a run of `n + 1` items, unfolded at the FIRST item -/
theorem generateSerial_succ (cfg : DatasetCfg) (gf sf n : Nat) (st : Streams) :
    generateSerial cfg gf sf (n + 1) st =
      (serialItem cfg gf sf st).bind fun r =>
        (generateSerial cfg gf sf n r.2).map fun q => (r.1 :: q.1, q.2) := by
  rw [generateSerial]
  cases serialItem cfg gf sf st with
  | none => rfl
  | some r =>
    obtain ⟨it, st'⟩ := r
    simp only [Option.bind_some]
    cases generateSerial cfg gf sf n st' with
    | none => rfl
    | some q => rfl

theorem generateSerial_length {cfg : DatasetCfg} {gf sf : Nat} : ∀ {n : Nat} {st : Streams} {its left},
    generateSerial cfg gf sf n st = some (its, left) → its.length = n
  | 0, st, its, left, h => by
    simp only [generateSerial, Option.some.injEq, Prod.mk.injEq] at h
    rw [← h.1]; rfl
  | n + 1, st, its, left, h => by
    rw [generateSerial] at h
    split at h
    · exact absurd h (by simp)
    · next it st' _ =>
      split at h
      · exact absurd h (by simp)
      · next its' st'' h' =>
        simp only [Option.some.injEq, Prod.mk.injEq] at h
        rw [← h.1, List.length_cons, generateSerial_length h']

/-- SPLIT: a run of `k + m` items is a run of `k` items followed by a run of `m` items on the streams the first run left -/
theorem generateSerial_add (cfg : DatasetCfg) (gf sf : Nat) : ∀ (k m : Nat) (st : Streams),
    generateSerial cfg gf sf (k + m) st =
      (generateSerial cfg gf sf k st).bind fun r =>
        (generateSerial cfg gf sf m r.2).map fun q => (r.1 ++ q.1, q.2)
  | 0, m, st => by
    simp only [Nat.zero_add, generateSerial, Option.bind_some, List.nil_append]
    cases generateSerial cfg gf sf m st with
    | none => rfl
    | some q => rfl
  | k + 1, m, st => by
    have e : k + 1 + m = (k + m) + 1 := by omega
    rw [e, generateSerial_succ, generateSerial_succ]
    cases serialItem cfg gf sf st with
    | none => rfl
    | some r =>
      simp only [Option.bind_some]
      rw [generateSerial_add cfg gf sf k m r.2]
      cases generateSerial cfg gf sf k r.2 with
      | none => rfl
      | some q =>
        simp only [Option.bind_some, Option.map_some]
        cases generateSerial cfg gf sf m q.2 with
        | none => rfl
        | some z => rfl

/-- the split, read backwards: a successful run of `k + m` items decomposes -/
theorem generateSerial_split {cfg : DatasetCfg} {gf sf k m : Nat} {st : Streams} {its left}
    (h : generateSerial cfg gf sf (k + m) st = some (its, left)) :
    ∃ a mid b, generateSerial cfg gf sf k st = some (a, mid) ∧ generateSerial cfg gf sf m mid = some (b, left) ∧
      its = a ++ b := by
  rw [generateSerial_add] at h
  cases h1 : generateSerial cfg gf sf k st with
  | none => rw [h1] at h; exact absurd h (by simp)
  | some r =>
    obtain ⟨a, mid⟩ := r
    rw [h1] at h
    simp only [Option.bind_some] at h
    cases h2 : generateSerial cfg gf sf m mid with
    | none => rw [h2] at h; exact absurd h (by simp)
    | some q =>
      obtain ⟨b, l⟩ := q
      rw [h2] at h
      simp only [Option.map_some, Option.some.injEq, Prod.mk.injEq] at h
      exact ⟨a, mid, b, rfl, by rw [← h.2]; exact h2, h.1.symm⟩

/-- PREFIX: the first `k` items of a run of `n` items are the run of `k` items on the same streams -/
theorem generateSerial_take {cfg : DatasetCfg} {gf sf n k : Nat} {st : Streams} {its left} (hk : k ≤ n)
    (h : generateSerial cfg gf sf n st = some (its, left)) :
    ∃ mid, generateSerial cfg gf sf k st = some (its.take k, mid) ∧
      generateSerial cfg gf sf (n - k) mid = some (its.drop k, left) := by
  have e : n = k + (n - k) := by omega
  rw [e] at h
  obtain ⟨a, mid, b, h1, h2, rfl⟩ := generateSerial_split h
  have hl := generateSerial_length h1
  refine ⟨mid, ?_, ?_⟩
  · rw [h1, ← hl, List.take_left]
  · rw [h2, ← hl, List.drop_left]

/-- INDEX ORDER: item `i` of a run is what ONE helper call returns on the streams the first `i` calls left -/
theorem generateSerial_getElem {cfg : DatasetCfg} {gf sf n : Nat} {st : Streams} {its left}
    (h : generateSerial cfg gf sf n st = some (its, left)) (i : Nat) (hi : i < its.length) :
    ∃ pre mid after, generateSerial cfg gf sf i st = some (pre, mid) ∧ pre = its.take i ∧
      serialItem cfg gf sf mid = some (its[i], after) := by
  have hn := generateSerial_length h
  obtain ⟨mid, h1, h2⟩ := generateSerial_take (k := i) (by omega) h
  refine ⟨its.take i, mid, ?_⟩
  have e : n - i = (n - i - 1) + 1 := by omega
  rw [e, generateSerial_succ] at h2
  cases hs : serialItem cfg gf sf mid with
  | none => rw [hs] at h2; exact absurd h2 (by simp)
  | some r =>
    obtain ⟨it, after⟩ := r
    rw [hs] at h2
    simp only [Option.bind_some] at h2
    cases hq : generateSerial cfg gf sf (n - i - 1) after with
    | none => rw [hq] at h2; exact absurd h2 (by simp)
    | some q =>
      rw [hq] at h2
      simp only [Option.map_some, Option.some.injEq, Prod.mk.injEq] at h2
      have hd : its.drop i = its[i] :: its.drop (i + 1) := List.drop_eq_getElem_cons hi
      rw [hd] at h2
      have : it = its[i] := (List.cons.inj h2.1).1
      exact ⟨after, h1, rfl, by rw [this]⟩

/-- EVERY item of a run has whatever property every single helper call's output has -/
theorem generateSerial_forall {cfg : DatasetCfg} {gf sf : Nat} {P : Item → Prop}
    (hP : ∀ st it st', serialItem cfg gf sf st = some (it, st') → P it) :
    ∀ {n : Nat} {st : Streams} {its left}, generateSerial cfg gf sf n st = some (its, left) → ∀ it ∈ its, P it
  | 0, st, its, left, h => by
    simp only [generateSerial, Option.some.injEq, Prod.mk.injEq] at h
    rw [← h.1]; intro it hit; cases hit
  | n + 1, st, its, left, h => by
    rw [generateSerial] at h
    split at h
    · exact absurd h (by simp)
    · next it st' hs =>
      split at h
      · exact absurd h (by simp)
      · next its' st'' h' =>
        simp only [Option.some.injEq, Prod.mk.injEq] at h
        rw [← h.1]
        intro x hx
        rcases List.mem_cons.mp hx with rfl | hx
        · exact hP _ _ _ hs
        · exact generateSerial_forall hP h' x hx

/-- the dfs part of `gen_dfs_percolation` is `gen_dfs` on the same draws: whenever the combined generator returns, so
    does `genDfsTop`, with the same start and the same dfs edges — its leftover is the combined generator's leftover
    (the percolation part draws only from `np.random.rand`) -/
theorem genDfsPercolationTop_dfsTop {rows cols : Nat} {p a given draws rands fuel o}
    (h : genDfsPercolationTop rows cols p a given draws rands fuel = some o) :
    ∃ d, genDfsTop rows cols a given draws fuel = some d ∧ d.edges = o.dfsEdges ∧ d.start = o.start ∧
      d.fullyConnected = o.fullyConnected := by
  unfold genDfsPercolationTop at h
  unfold genDfsTop
  split at h
  · exact absurd h (by simp)
  · next start d1 hst =>
    split at h
    · exact absurd h (by simp)
    · next s hs =>
      split at h
      · exact absurd h (by simp)
      · simp only at h
        split at h
        · exact absurd h (by simp)
        · simp only [Option.some.injEq] at h
          subst h
          exact ⟨_, rfl, rfl, rfl, rfl⟩

end MZ

/-! ## every call consumes a PREFIX of the shared streams: what it leaves is a suffix of what it got -/
namespace MZ

theorem startCoord_suffix {rows cols : Nat} {given draws c rest}
    (h : startCoord rows cols given draws = some (c, rest)) : rest <:+ draws := by
  unfold startCoord at h
  split at h
  · split at h
    · simp only [Option.some.injEq, Prod.mk.injEq] at h; rw [← h.2]; exact List.suffix_refl _
    · exact absurd h (by simp)
  · unfold randomStart at h
    split at h
    · next a b r =>
      split at h
      · simp only [Option.some.injEq, Prod.mk.injEq] at h; rw [← h.2]
        exact ⟨[a, b], rfl⟩
      · exact absurd h (by simp)
    · exact absurd h (by simp)

theorem step_rng_suffix {rows cols : Nat} {a : Args} {s s' : St} (h : step rows cols a s = some s') :
    s'.rng <:+ s.rng := by
  unfold step at h
  split at h
  · exact absurd h (by simp)
  · next i rng1 hp =>
    have h1 : rng1 <:+ s.rng := by
      unfold popIdx at hp
      split at hp
      · split at hp
        · next r rs hr =>
          simp only [Option.some.injEq, Prod.mk.injEq] at hp
          rw [← hp.2, hr]; exact List.suffix_cons _ _
        · exact absurd hp (by simp)
      · simp only [Option.some.injEq, Prod.mk.injEq] at hp
        rw [← hp.2]; exact List.suffix_refl _
    split at h
    · exact absurd h (by simp)
    · simp only at h
      split at h
      · split at h
        · exact absurd h (by simp)
        · next k rng2 =>
          split at h
          · exact absurd h (by simp)
          · simp only [Option.some.injEq] at h
            subst h
            exact (List.suffix_cons k rng2).trans h1
      · simp only [Option.some.injEq] at h
        subst h
        exact h1

theorem loop_rng_suffix {rows cols : Nat} {a : Args} : ∀ (fuel : Nat) {s s' : St},
    loop rows cols a fuel s = some s' → s'.rng <:+ s.rng
  | 0, _, _, h => by simp [loop] at h
  | fuel + 1, s, s', h => by
    rw [loop] at h
    split at h
    · split at h
      · next s1 hs1 => exact (loop_rng_suffix fuel h).trans (step_rng_suffix hs1)
      · exact absurd h (by simp)
    · simp only [Option.some.injEq] at h; subst h; exact List.suffix_refl _

theorem genDfsTop_suffix {rows cols : Nat} {a given draws fuel o}
    (h : genDfsTop rows cols a given draws fuel = some o) : o.leftover <:+ draws := by
  unfold genDfsTop at h
  split at h
  · exact absurd h (by simp)
  · next start d1 hst =>
    split at h
    · exact absurd h (by simp)
    · next s hs =>
      simp only [Option.some.injEq] at h; subst h
      exact (loop_rng_suffix fuel (s := init start d1) hs).trans (startCoord_suffix hst)

theorem walk_rng_suffix {rows cols : Nat} {vis : List Cell} : ∀ (fuel : Nat) {path rng path' rng'},
    walk rows cols vis fuel path rng = some (path', rng') → rng' <:+ rng
  | 0, _, _, _, _, h => by simp [walk] at h
  | fuel + 1, path, rng, path', rng', h => by
    unfold walk at h
    split at h
    · simp only [Option.some.injEq, Prod.mk.injEq] at h; rw [← h.2]; exact List.suffix_refl _
    · split at h
      · exact absurd h (by simp)
      · next k r =>
        split at h
        · exact absurd h (by simp)
        · split at h
          · exact (walk_rng_suffix fuel h).trans (List.suffix_cons k r)
          · exact (walk_rng_suffix fuel h).trans (List.suffix_cons k r)

theorem outer_rng_suffix {rows cols : Nat} : ∀ (fuel : Nat) {s s' : WSt},
    outer rows cols fuel s = some s' → s'.rng <:+ s.rng
  | 0, _, _, h => by simp [outer] at h
  | fuel + 1, s, s', h => by
    rw [outer] at h
    split at h
    · simp only [Option.some.injEq] at h; subst h; exact List.suffix_refl _
    · split at h
      · exact absurd h (by simp)
      · next k rng1 hr =>
        split at h
        · exact absurd h (by simp)
        · split at h
          · exact absurd h (by simp)
          · next path rng2 hw =>
            have h1 := outer_rng_suffix fuel h
            have h2 := walk_rng_suffix fuel hw
            rw [hr]
            exact (h1.trans h2).trans (List.suffix_cons k rng1)

theorem genWilsonTop_suffix {rows cols : Nat} {draws fuel w}
    (h : genWilsonTop rows cols draws fuel = some w) : w.rng <:+ draws := by
  unfold genWilsonTop at h
  split at h
  · exact absurd h (by simp)
  · next start d1 hst =>
    have hs : d1 <:+ draws := startCoord_suffix (given := none) (by simpa [startCoord] using hst)
    exact (outer_rng_suffix fuel (s := { vis := [start], E := [], rng := d1 }) h).trans hs

/-- one generator call leaves a suffix of the draws and of the rands it was given -/
theorem genMaze_suffix {rows cols : Nat} {g draws rands fuel m}
    (h : genMaze rows cols g draws rands fuel = some m) : m.draws <:+ draws ∧ m.rands <:+ rands := by
  unfold genMaze at h
  cases g with
  | dfs a given =>
    simp only [Option.map_eq_some_iff] at h
    obtain ⟨o, ho, rfl⟩ := h
    exact ⟨genDfsTop_suffix ho, List.suffix_refl _⟩
  | prim a given =>
    simp only [Option.map_eq_some_iff] at h
    obtain ⟨o, ho, rfl⟩ := h
    exact ⟨genDfsTop_suffix (a := { a with randStack := true }) ho, List.suffix_refl _⟩
  | wilson =>
    simp only [Option.map_eq_some_iff] at h
    obtain ⟨w, hw, rfl⟩ := h
    exact ⟨genWilsonTop_suffix hw, List.suffix_refl _⟩
  | percolation p given =>
    simp only at h
    split at h
    · next c d1 o hst _ =>
      simp only [Option.some.injEq] at h; subst h
      exact ⟨startCoord_suffix hst, List.drop_suffix _ _⟩
    · exact absurd h (by simp)
  | dfsPercolation p a given =>
    simp only at h
    split at h
    · next d o hd _ =>
      simp only [Option.some.injEq] at h; subst h
      exact ⟨genDfsTop_suffix hd, List.drop_suffix _ _⟩
    · exact absurd h (by simp)

theorem endpointDraws_suffix {rows cols : Nat} {E comp o s draws rest}
    (h : endpointDraws rows cols E comp o s draws = some rest) : ∃ a b, draws = a :: b :: rest := by
  unfold endpointDraws at h
  split at h
  · next a b r =>
    refine ⟨a, b, ?_⟩
    split at h
    · simp only [Option.ite_none_right_eq_some, Option.some.injEq] at h
      rw [h.2]
    · simp only [Option.ite_none_right_eq_some, Option.some.injEq] at h
      rw [h.2]
  · exact absurd h (by simp)

/-- "consumed a prefix" for all three streams at once -/
def Streams.LeftOf (left st : Streams) : Prop :=
  left.draws <:+ st.draws ∧ left.rands <:+ st.rands ∧ left.obs <:+ st.obs

theorem Streams.LeftOf.refl (st : Streams) : st.LeftOf st :=
  ⟨List.suffix_refl _, List.suffix_refl _, List.suffix_refl _⟩

theorem Streams.LeftOf.trans {a b c : Streams} (h1 : a.LeftOf b) (h2 : b.LeftOf c) : a.LeftOf c :=
  ⟨h1.1.trans h2.1, h1.2.1.trans h2.2.1, h1.2.2.trans h2.2.2⟩

/-- one helper call consumes a prefix of every stream: at least two draws (the endpoint indices) and exactly one observation -/
theorem serialItem_leftOf {cfg : DatasetCfg} {gf sf : Nat} {st : Streams} {it st'}
    (h : serialItem cfg gf sf st = some (it, st')) :
    st'.LeftOf st ∧ st'.draws.length + 2 ≤ st.draws.length ∧ st.obs.length = st'.obs.length + 1 := by
  unfold serialItem at h
  split at h
  · exact absurd h (by simp)
  · next m hm =>
    obtain ⟨hd, hr⟩ := genMaze_suffix hm
    split at h
    · split at h
      · exact absurd h (by simp)
      · next ob obs' hobs =>
        split at h
        · exact absurd h (by simp)
        · next d' hed =>
          split at h
          · simp only [Option.some.injEq, Prod.mk.injEq] at h
            obtain ⟨_, rfl⟩ := h
            obtain ⟨a, b, hab⟩ := endpointDraws_suffix hed
            have h2 : d' <:+ m.draws := ⟨[a, b], by rw [hab]; rfl⟩
            refine ⟨⟨h2.trans hd, hr, ?_⟩, ?_, ?_⟩
            · show obs' <:+ st.obs
              rw [hobs]; exact List.suffix_cons _ _
            · have := hd.length_le
              show d'.length + 2 ≤ st.draws.length
              rw [hab] at this; simp only [List.length_cons] at this; omega
            · show st.obs.length = obs'.length + 1
              rw [hobs]; rfl
          · exact absurd h (by simp)
    · exact absurd h (by simp)

/-- a run of `n` calls consumes a prefix of every stream: at least `2 n` draws and exactly `n` observations -/
theorem generateSerial_leftOf {cfg : DatasetCfg} {gf sf : Nat} : ∀ {n : Nat} {st : Streams} {its left},
    generateSerial cfg gf sf n st = some (its, left) →
      left.LeftOf st ∧ left.draws.length + 2 * n ≤ st.draws.length ∧ st.obs.length = left.obs.length + n
  | 0, st, its, left, h => by
    simp only [generateSerial, Option.some.injEq, Prod.mk.injEq] at h
    rw [← h.2]; exact ⟨Streams.LeftOf.refl _, by omega, by omega⟩
  | n + 1, st, its, left, h => by
    rw [generateSerial] at h
    split at h
    · exact absurd h (by simp)
    · next it st' hs =>
      split at h
      · exact absurd h (by simp)
      · next its' st'' h' =>
        simp only [Option.some.injEq, Prod.mk.injEq] at h
        rw [← h.2]
        obtain ⟨a1, a2, a3⟩ := serialItem_leftOf hs
        obtain ⟨b1, b2, b3⟩ := generateSerial_leftOf h'
        exact ⟨b1.trans a1, by omega, by omega⟩

end MZ
