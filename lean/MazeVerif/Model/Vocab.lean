import MazeVerif.Generated.Constants
import MazeVerif.Generated.VocabBlocks
/-! Model of the token vocabularies and token-id codecs (property C14). Core Lean + Generated only.

    * `ndindex n`        = `list(np.ndindex(n, n))`                                   (utils.py:74, maze_tokenizer.py:97)
    * `cornerFirst n`    = `corner_first_ndindex(n, 2)` = `sorted(ndindex, key=…)`     (utils.py:58-75); CPython's `sorted`
                           is stable, so is core `List.mergeSort`; the key `(max(x), x if x[0]%2==0 else x[::-1])` is NOT
                           injective (`(0,1)` and `(1,0)` tie), the model keeps exactly that key.
    * `coordToken`       = `f"({x},{y})"` (constants.py:194, token_utils.py:203-206)
    * `vocab`            = `VOCAB_LIST = list(VOCAB.values())` (constants.py:147-213): the `_SPECIAL_TOKENS_BASE` fields, then
                           `_VOCAB_FIELDS` in declaration order (dataclass field order; field names are assumed distinct — the
                           real `make_dataclass` raises otherwise)
    * `tokenToIndex`     = `{token: i for i, token in enumerate(lst)}` lookup (last occurrence wins, as in a dict comprehension)
    * `encode` / `decode` = `MazeTokenizerModular.encode/decode` (maze_tokenizer.py:2170-2199) and, with `tokenArr`, the legacy
                           `MazeTokenizer.encode/decode` (maze_tokenizer.py:360-392)
    * `tokenArr mode n`  = `MazeTokenizer._token_arr` (maze_tokenizer.py:238-275) -/
namespace MZ.Vocab

abbrev P := Nat × Nat

/-- `list(np.ndindex(n, n))`: row-major, last index fastest -/
def ndindex (n : Nat) : List P := (List.range n).flatMap fun i => (List.range n).map fun j => (i, j)

/-- first component of the Python sort key: `max(x)` -/
def k1 (x : P) : Nat := max x.1 x.2
/-- second component, first entry: `(x if x[0] % 2 == 0 else x[::-1])[0]` -/
def k2 (x : P) : Nat := if x.1 % 2 = 0 then x.1 else x.2
/-- second component, second entry -/
def k3 (x : P) : Nat := if x.1 % 2 = 0 then x.2 else x.1

/-- `key(a) <= key(b)` for the Python key `(max(x), x if x[0] % 2 == 0 else x[::-1])` (tuple comparison) -/
def keyLeP (a b : P) : Prop :=
  k1 a < k1 b ∨ (k1 a = k1 b ∧ (k2 a < k2 b ∨ (k2 a = k2 b ∧ k3 a ≤ k3 b)))

instance : DecidableRel keyLeP := fun a b => by unfold keyLeP; exact inferInstance

def keyLe (a b : P) : Bool := decide (keyLeP a b)

/-- `corner_first_ndindex(n)`: stable sort of `ndindex n` by the Python key -/
def cornerFirst (n : Nat) : List P := (ndindex n).mergeSort keyLe

/-- python key with ties broken by the pair itself — the order a STABLE sort of the lexicographically ordered `ndindex`
    produces (proved: `cornerFirst_eq_totalSort`); used by the spec checker below -/
def totLeP (a b : P) : Prop :=
  k1 a < k1 b ∨ (k1 a = k1 b ∧ (k2 a < k2 b ∨ (k2 a = k2 b ∧ (k3 a < k3 b ∨ (k3 a = k3 b ∧
    (a.1 < b.1 ∨ (a.1 = b.1 ∧ a.2 ≤ b.2)))))))

instance : DecidableRel totLeP := fun a b => by unfold totLeP; exact inferInstance

def totLe (a b : P) : Bool := decide (totLeP a b)

/-- adjacent entries strictly increasing in the total order -/
def sortedAdj : List P → Bool
  | a :: b :: r => (totLe a b && !(totLe b a)) && sortedAdj (b :: r)
  | _ => true

/-- spec checker for an implementation output `l` of `corner_first_ndindex(n)`: `n²` in-range pairs, strictly increasing in
    the total order. Proved (`C14_cornerSpec_sound`/`_complete`): `cornerSpecOK n l = true ↔ l = cornerFirst n`. -/
def cornerSpecOK (n : Nat) (l : List P) : Bool :=
  l.length == n * n && l.all (fun x => decide (x.1 < n ∧ x.2 < n)) && sortedAdj l

/-- `f"({x},{y})"` -/
def coordToken (x : P) : String := "(" ++ Nat.repr x.1 ++ "," ++ Nat.repr x.2 ++ ")"

/-- `list(SPECIAL_TOKENS.values())` -/
def specials : List String := Gen.specialTokens.map (·.2)

/-- token values of `_VOCAB_FIELDS` before the coordinate block -/
def headTokens : List String := Gen.vocabFieldsHead.map (·.2)

/-- the trailing `UT_xx_yy` block -/
def utTokens : List String := (cornerFirst Gen.vocabUTSize).map coordToken

/-- `VOCAB_LIST` -/
def vocab : List String := specials ++ headTokens ++ utTokens

/-! ### block view of the same list (from `Generated/VocabBlocks.lean`) -/

/-- `range(lo, lo+n)` -/
def intRange (lo : Int) (n : Nat) : List Int := (List.range n).map fun (j : Nat) => lo + (j : Int)

/-- the tokens a block of `_VOCAB_FIELDS` contributes -/
def blkTokens : Gen.VBlk → List String
  | .lits ts => ts
  | .intRange pre lo n post => (intRange lo n).map fun i => pre ++ Int.repr i ++ post
  | .cornerFirst n pre mid post => (cornerFirst n).map fun x => pre ++ Nat.repr x.1 ++ mid ++ Nat.repr x.2 ++ post
  | .other _ => []

/-- `VOCAB_LIST` computed from the block structure -/
def vocabFromBlocks : List String := specials ++ (Gen.vocabBlocks.map blkTokens).flatten

/-! ### codecs -/

inductive Err where
  | tokenError   -- `TokenError` (a `ValueError`)
  | typeError    -- `TypeError` (legacy tokenizer without `max_grid_size`: `None[...]`)
  | valueError   -- `ValueError` (`_token_arr` without `max_grid_size`)
  deriving Repr, DecidableEq

def Err.name : Err → String
  | .tokenError => "TokenError"
  | .typeError => "TypeError"
  | .valueError => "ValueError"

/-- `{token: i for i, token in enumerate(lst)}.get(t)`, positions counted from `i`: the LAST occurrence wins -/
def lookupLast (t : String) : List String → Nat → Option Nat
  | [], _ => none
  | x :: xs, i =>
    match lookupLast t xs (i + 1) with
    | some j => some j
    | none => if x = t then some i else none

/-- `VOCAB_TOKEN_TO_INDEX.get(t)` / `tokenizer_map.get(t)` -/
def tokenToIndex (voc : List String) (t : String) : Option Nat := lookupLast t voc 0

/-- `[tokenizer_map[token] for token in text]`, `KeyError -> TokenError` -/
def encode (voc : List String) : List String → Except Err (List Nat)
  | [] => .ok []
  | t :: ts =>
    match tokenToIndex voc t with
    | none => .error .tokenError
    | some i =>
      match encode voc ts with
      | .ok r => .ok (i :: r)
      | .error e => .error e

/-- `[VOCAB_LIST[id] for id in ids]` for non-negative ids, `IndexError -> TokenError` -/
def decodeNonneg (voc : List String) : List Int → Except Err (List String)
  | [] => .ok []
  | i :: is =>
    match voc[i.toNat]? with
    | none => .error .tokenError
    | some t =>
      match decodeNonneg voc is with
      | .ok r => .ok (t :: r)
      | .error e => .error e

/-- `decode`: `if any(id < 0 …): raise IndexError` first, then the list comprehension; `IndexError -> TokenError` -/
def decode (voc : List String) (ids : List Int) : Except Err (List String) :=
  if ids.any (fun i => decide (i < 0)) then .error .tokenError else decodeNonneg voc ids

/-! ### legacy `MazeTokenizer` -/

inductive Mode where
  | rasterized   -- `AOTP_UT_rasterized`
  | uniform      -- `AOTP_UT_uniform`
  | indexed      -- `AOTP_CTT_indexed`
  deriving Repr, DecidableEq

/-- `_NDINDEX_FUNC_MAP[mode](n)` for the two UT modes -/
def modeCoords : Mode → Nat → List P
  | .rasterized, n => ndindex n
  | .uniform, n => cornerFirst n
  | .indexed, _ => []

/-- `MazeTokenizer(tokenization_mode=mode, max_grid_size=n)._token_arr` -/
def tokenArr : Mode → Nat → List String
  | .indexed, n => specials ++ (["(", ",", ")"] ++ (List.range n).map Nat.repr)
  | m, n => specials ++ (modeCoords m n).map coordToken

/-- `.token_arr` (None when `max_grid_size is None`) -/
def tokenArr? (m : Mode) : Option Nat → Option (List String)
  | none => none
  | some n => some (tokenArr m n)

/-- legacy `encode`: `self.tokenizer_map[token]` with `tokenizer_map = None` is a `TypeError` (not caught) unless `text` is empty -/
def legacyEncode (m : Mode) (size : Option Nat) (ts : List String) : Except Err (List Nat) :=
  match size with
  | some n => encode (tokenArr m n) ts
  | none => if ts.isEmpty then .ok [] else .error .typeError

/-- legacy `decode`: the negative-id test runs first; then `self.token_arr[token]` with `token_arr = None` is a `TypeError` -/
def legacyDecode (m : Mode) (size : Option Nat) (ids : List Int) : Except Err (List String) :=
  match size with
  | some n => decode (tokenArr m n) ids
  | none => if ids.any (fun i => decide (i < 0)) then .error .tokenError else if ids.isEmpty then .ok [] else .error .typeError

end MZ.Vocab
