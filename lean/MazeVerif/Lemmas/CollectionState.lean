import MazeVerif.Model.CollectionState
import MazeVerif.Lemmas.Coll
/-! Helper lemmas for the collection state machine (`Model/CollectionState.lean`). -/
namespace MZ.Coll

variable {α : Type}

/-! ### plumbing: `runState`, `run`, `obs` -/

theorem runState_append (s : CState α) (a b : List (Op α)) :
    runState s (a ++ b) = runState (runState s a) b := by
  induction a generalizing s with
  | nil => rfl
  | cons o os ih => simp only [List.cons_append, runState, ih]

theorem run_fst (s : CState α) (ops : List (Op α)) : (run s ops).1 = runState s ops := by
  induction ops generalizing s with
  | nil => rfl
  | cons o os ih => simp only [run, runState, ih]

theorem run_length (s : CState α) (ops : List (Op α)) : (run s ops).2.length = ops.length := by
  induction ops generalizing s with
  | nil => rfl
  | cons o os ih => simp only [run, List.length_cons, ih]

/-- the k-th output of a run is the answer to the k-th statement after the first k statements -/
theorem run_getElem (s : CState α) (ops : List (Op α)) (k : Nat) (hk : k < ops.length) :
    (run s ops).2[k]'(by rw [run_length]; exact hk) = obs s (ops.take k) ops[k] := by
  induction ops generalizing s k with
  | nil => simp at hk
  | cons o os ih =>
    cases k with
    | zero => simp [run, obs, runState]
    | succ k =>
      have hk' : k < os.length := by simpa using hk
      simp only [run, List.getElem_cons_succ, List.take_succ_cons]
      rw [ih (step s o).1 k hk']
      simp [obs, runState]

/-! ### what each statement leaves alone -/

theorem step_extra (s : CState α) (o : Op α) : (step s o).1.extraCfgN = s.extraCfgN := by
  cases o <;> simp only [step] <;> (try split) <;> rfl

theorem runState_extra (s : CState α) (ops : List (Op α)) : (runState s ops).extraCfgN = s.extraCfgN := by
  induction ops generalizing s with
  | nil => rfl
  | cons o os ih => simp only [runState, ih, step_extra]

theorem step_members (s : CState α) (o : Op α) : (step s o).1.members = curMembers s.members [o] := by
  cases o <;> simp only [step, curMembers] <;> (try split) <;> rfl

/-- the machine's member lists are exactly the history-level `curMembers`: only `setMember` touches them -/
theorem runState_members (s : CState α) (ops : List (Op α)) :
    (runState s ops).members = curMembers s.members ops := by
  induction ops generalizing s with
  | nil => rfl
  | cons o os ih =>
    simp only [runState, ih, step_members]
    cases o <;> simp only [curMembers]

theorem curMembers_append (ms : List (List α)) (a b : List (Op α)) :
    curMembers ms (a ++ b) = curMembers (curMembers ms a) b := by
  induction a generalizing ms with
  | nil => rfl
  | cons o os ih => cases o <;> simp only [List.cons_append, curMembers, ih]

theorem curMembers_length (ms : List (List α)) (ops : List (Op α)) :
    (curMembers ms ops).length = ms.length := by
  induction ops generalizing ms with
  | nil => rfl
  | cons o os ih =>
    cases o <;> simp only [curMembers, ih]
    split <;> simp

theorem curMembers_noSet (ms : List (List α)) (ops : List (Op α)) (h : ∀ o ∈ ops, o.isSet = false) :
    curMembers ms ops = ms := by
  induction ops generalizing ms with
  | nil => rfl
  | cons o os ih =>
    have ho := h o (by simp)
    have hos : ∀ o ∈ os, o.isSet = false := fun o' ho' => h o' (by simp [ho'])
    cases o <;> simp only [curMembers, ih _ hos]
    simp [Op.isSet] at ho

/-! ### the cache slot -/

theorem step_cache_some (s : CState α) (o : Op α) (l : List α) (h : s.cache = some l) :
    (step s o).1.cache = some l := by
  cases o <;> simp only [step, h] <;> (try split) <;> first | rfl | exact h

theorem runState_cache_some (s : CState α) (ops : List (Op α)) (l : List α) (h : s.cache = some l) :
    (runState s ops).cache = some l := by
  induction ops generalizing s with
  | nil => exact h
  | cons o os ih => exact ih _ (step_cache_some s o l h)

theorem runState_cache_none (s : CState α) (ops : List (Op α)) (h : s.cache = none)
    (hr : ∀ o ∈ ops, o.isRead = false) : (runState s ops).cache = none := by
  induction ops generalizing s with
  | nil => exact h
  | cons o os ih =>
    have ho := hr o (by simp)
    refine ih _ ?_ (fun o' ho' => hr o' (by simp [ho']))
    cases o <;> simp only [step] <;> (try split) <;> first | exact h | simp [Op.isRead] at ho

/-! ### the counts invariant -/

/-- every member slot outside `d` has `cfg.n_mazes = len(mazes)`, and there is one config per member -/
def CountsInv (s : CState α) (d : List Nat) : Prop :=
  s.memberCfgN.length = s.members.length ∧
  ∀ j, j ∉ d → s.memberCfgN[j]? = (s.members[j]?).map List.length

theorem countsInv_init (ms : List (List α)) : CountsInv (init ms) [] := by
  refine ⟨by simp [init], fun j _ => ?_⟩
  simp [init]

theorem countsInv_step (s : CState α) (d : List Nat) (o : Op α) (h : CountsInv s d) :
    CountsInv (step s o).1 (dirty d [o]) := by
  obtain ⟨hl, hj⟩ := h
  cases o with
  | setMember j new =>
    simp only [step, dirty]
    split
    · refine ⟨by simpa using hl, fun k hk => ?_⟩
      have hne : j ≠ k := fun e => hk (by simp [e])
      have hkd : k ∉ d := fun e => hk (by simp [e])
      simp only [List.getElem?_set_ne hne]
      exact hj k hkd
    · exact ⟨hl, fun k hk => hj k (fun e => hk (by simp [e]))⟩
  | memberUpdateCfg j =>
    simp only [step, dirty]
    split
    · rename_i d' hd'
      refine ⟨by simpa using hl, fun k hk => ?_⟩
      by_cases hkj : j = k
      · subst hkj
        have hlt : j < s.members.length := by
          rcases Nat.lt_or_ge j s.members.length with h | h
          · exact h
          · rw [List.getElem?_eq_none h] at hd'; cases hd'
        simp only [hd', Option.map_some]
        rw [List.getElem?_set_self (by omega)]
      · simp only [List.getElem?_set_ne hkj]
        refine hj k (fun e => hk ?_)
        simp only [List.mem_filter, bne_iff_ne, ne_eq]
        exact ⟨e, fun e' => hkj e'.symm⟩
    · rename_i hnone
      refine ⟨hl, fun k hk => ?_⟩
      by_cases hkj : j = k
      · subst hkj
        have hge : s.members.length ≤ j := by
          rcases Nat.lt_or_ge j s.members.length with h | h
          · rw [List.getElem?_eq_getElem h] at hnone; cases hnone
          · exact h
        have hge' : s.memberCfgN.length ≤ j := by omega
        show s.memberCfgN[j]? = Option.map List.length s.members[j]?
        rw [hnone, List.getElem?_eq_none hge']; rfl
      · refine hj k (fun e => hk ?_)
        simp only [List.mem_filter, bne_iff_ne, ne_eq]
        exact ⟨e, fun e' => hkj e'.symm⟩
  | collUpdateCfg =>
    simp only [step, dirty]
    exact ⟨by simp, fun k _ => by simp⟩
  | readMazes =>
    simp only [step, dirty]
    split <;> exact ⟨hl, hj⟩
  | getitem i =>
    simp only [step, dirty]
    split <;> exact ⟨hl, hj⟩
  | len => exact ⟨hl, hj⟩
  | lengths => exact ⟨hl, hj⟩
  | cfgCount => exact ⟨hl, hj⟩

theorem dirty_cons (d : List Nat) (o : Op α) (os : List (Op α)) :
    dirty d (o :: os) = dirty (dirty d [o]) os := by
  cases o <;> simp only [dirty]

theorem countsInv_run (s : CState α) (d : List Nat) (ops : List (Op α)) (h : CountsInv s d) :
    CountsInv (runState s ops) (dirty d ops) := by
  induction ops generalizing s d with
  | nil => exact h
  | cons o os ih =>
    rw [dirty_cons]
    exact ih _ _ (countsInv_step s d o h)

theorem countsInv_nil (s : CState α) (h : CountsInv s []) : s.memberCfgN = s.members.map List.length := by
  apply List.ext_getElem?
  intro j
  rw [h.2 j (by simp)]
  simp

/-- without a `setMember`, a clean history stays clean -/
theorem dirty_noSet (ops : List (Op α)) (h : ∀ o ∈ ops, o.isSet = false) : dirty [] ops = [] := by
  induction ops with
  | nil => rfl
  | cons o os ih =>
    have ho := h o (by simp)
    have hos : ∀ o ∈ os, o.isSet = false := fun o' ho' => h o' (by simp [ho'])
    cases o <;> simp only [dirty, List.filter_nil] <;> first | exact ih hos | simp [Op.isSet] at ho

theorem dirty_append (d : List Nat) (a b : List (Op α)) : dirty d (a ++ b) = dirty (dirty d a) b := by
  induction a generalizing d with
  | nil => rfl
  | cons o os ih => cases o <;> simp only [List.cons_append, dirty, ih]

/-- `collUpdateCfg` establishes the invariant from ANY state -/
theorem countsInv_collUpdate (s : CState α) : CountsInv (step s .collUpdateCfg).1 [] := by
  simp only [step]
  exact ⟨by simp, fun k _ => by simp⟩

/-- in a disciplined statement list, every count is read with an empty dirty set -/
theorem disciplined_clean (d : List Nat) (ops : List (Op α)) (h : disciplined d ops = true)
    (k : Nat) (hk : k < ops.length) (hobs : ops[k].isCountObs = true) : dirty d (ops.take k) = [] := by
  induction ops generalizing d k with
  | nil => simp at hk
  | cons o os ih =>
    simp only [disciplined, Bool.and_eq_true, Bool.or_eq_true, Bool.not_eq_true'] at h
    cases k with
    | zero =>
      simp only [List.getElem_cons_zero] at hobs
      rcases h.1 with h1 | h1
      · rw [h1] at hobs; cases hobs
      · simpa [dirty] using h1
    | succ k =>
      simp only [List.take_succ_cons]
      rw [dirty_cons]
      exact ih _ h.2 k (by simpa using hk) (by simpa using hobs)

end MZ.Coll
