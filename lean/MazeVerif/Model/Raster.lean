import MazeVerif.Model.Pixels
/-! Rasterized input/target images (property C17).
    Mirrors maze_dataset/dataset/rasterized.py: `_extend_pixels` (33-59), `process_maze_rasterized_input_target`
    (69-100), `RasterizedMazeDataset.__getitem__` / `get_batch` (116-140) and
    maze_dataset/maze/lattice_maze.py `_remove_isolated_cells` (1287-1317). -/
namespace MZ.Pix

/-- `padded_wall_mask` of `_remove_isolated_cells` read at the unpadded position `(x, y)` (may be −1 or `h`/`w`):
    `True` outside the image (the `constant_values=True` pad), else `image == WALL` -/
def wallAt (g : Img RGB) (x y : Int) : Bool :=
  if 0 ≤ x ∧ x < g.h ∧ 0 ≤ y ∧ y < g.w then decide (g.px x.toNat y.toNat = cWall) else true

/-- `_remove_isolated_cells` -/
def removeIsolated (g : Img RGB) : Img RGB :=
  ⟨g.h, g.w, fun x y =>
    let isolated := wallAt g x (y + 1) && wallAt g x ((y : Int) - 1) && wallAt g (x + 1) y && wallAt g ((x : Int) - 1) y
    if isolated && !decide (g.px x y = cWall) then cWall else g.px x y⟩

/-- `np.repeat(np.repeat(image, 2, axis=0), 2, axis=1)` -/
def repeat2 (g : Img RGB) : Img RGB := ⟨2 * g.h, 2 * g.w, fun x y => g.px (x / 2) (y / 2)⟩

/-- `np.pad(output, ((1,1),(1,1),(0,0)), constant_values=wall_fill)` with `wall_fill = PixelColors.WALL[0]` -/
def pad1 (g : Img RGB) : Img RGB :=
  ⟨g.h + 2, g.w + 2, fun x y =>
    if 1 ≤ x ∧ x ≤ g.h ∧ 1 ≤ y ∧ y ≤ g.w then g.px (x - 1) (y - 1) else (cWall.1, cWall.1, cWall.1)⟩

/-- `_extend_pixels(image)` with the defaults `n_mult=2, n_bdry=1` -/
def extendPixels (g : Img RGB) : Img RGB := pad1 (repeat2 g)

/-- `process_maze_rasterized_input_target`: `(problem_maze, solution_maze)` -/
def processRaster (m : Maze) (removeIso extend endpointsAsOpen : Bool) : Except Err (Img RGB × Img RGB) :=
  match asPixels m true true with
  | .error e => .error e
  | .ok mp =>
    let problem := mp.recolor cPath cOpen
    let sol0 := (mp.recolor cOpen cWall).recolor cPath cOpen
    let sol1 := if endpointsAsOpen then (sol0.recolor cStart cOpen).recolor cEnd cOpen else sol0
    let p2 := if removeIso then removeIsolated problem else problem
    let s2 := if removeIso then removeIsolated sol1 else sol1
    let p3 := if extend then extendPixels p2 else p2
    let s3 := if extend then extendPixels s2 else s2
    .ok (p3, s3)

/-- `self.mazes[idx]` (Python list indexing: negative indices wrap once, otherwise IndexError) followed by the
    per-item processing `f`; `get_batch(idxs)` = `stack([stack(inputs), stack(targets)])` in the order of `idxs` -/
def getBatch {α β : Type} (mazes : List α) (f : α → Except Err (β × β)) (idxs : List Int) : Except Err (List β × List β) :=
  match idxs with
  | [] => .ok ([], [])
  | i :: is =>
    match normIdx mazes.length i with
    | none => .error .index
    | some k =>
      match mazes[k]? with
      | none => .error .index
      | some m =>
        match f m with
        | .error e => .error e
        | .ok (a, b) =>
          match getBatch mazes f is with
          | .error e => .error e
          | .ok (as, bs) => .ok (a :: as, b :: bs)

/-- `get_batch(idxs)`: `None` means all indices; `zip(*[])` of an empty item list cannot be unpacked (ValueError) -/
def getBatchPy {α β : Type} (mazes : List α) (f : α → Except Err (β × β)) (idxs : Option (List Int)) :
    Except Err (List β × List β) :=
  let ids : List Int := match idxs with
    | none => (List.range mazes.length).map fun (k : Nat) => (k : Int)
    | some l => l
  if ids.isEmpty then .error .value else getBatch mazes f ids

end MZ.Pix
