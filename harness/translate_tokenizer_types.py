"""Emitter for lean/MazeVerif/Generated/TokenizerTypes.lean (property C15; DESIGN.md 2.2).

The `_TokenizerElement` class tree is read TWICE and the two readings must agree, otherwise the translator fails
(= a broken obligation of C15):
  1. `ast` pass over maze_dataset/tokenization/maze_tokenizer.py and all_tokenizers.py: what the files SAY — classes in
     definition order, bases, own annotated fields, `abc.abstractmethod`s, `mark_as_unsupported` decorations, the
     `_type_` field `__init_subclass__` adds, dataclass field order by inheritance, the keys of
     MAZE_TOKENIZER_MODULAR_DEFAULT_VALIDATION_FUNCS, and which fields of `self` each `is_valid` reads;
  2. import pass: `__dataclass_fields__`, `__subclasses__()`, `muutils.misc.is_abstract` of the imported classes.
The finite `is_valid` tables are tabulated by CALLING the real methods (each reads at most one field of `self`;
anything else is reported as unsupported, never guessed), the Union validation by calling the real lambda on the raw
340 tuples, `from_legacy` by calling it on every `TokenizationMode`.
"""
from __future__ import annotations
import ast, itertools, sys
from pathlib import Path

MODPATH = "maze_dataset.tokenization.maze_tokenizer"


class Unsupported(Exception):
    pass


# ------------------------------------------------------------------------------------------------ ast pass
def _dec_name(d):
    f = d.func if isinstance(d, ast.Call) else d
    return f.attr if isinstance(f, ast.Attribute) else getattr(f, "id", "")


def _self_attrs(fn: ast.AST, selfname: str) -> list[str]:
    """names of attributes read from `self` in a function/lambda body; any other use of `self` is unsupported"""
    attrs, used_elsewhere = [], []
    attr_nodes = set()
    for n in ast.walk(fn):
        if isinstance(n, ast.Attribute) and isinstance(n.value, ast.Name) and n.value.id == selfname:
            attrs.append(n.attr); attr_nodes.add(id(n.value))
    for n in ast.walk(fn):
        if isinstance(n, ast.Name) and n.id == selfname and id(n) not in attr_nodes and not isinstance(n.ctx, ast.Param):
            used_elsewhere.append(n.lineno)
    if used_elsewhere:
        raise Unsupported(f"is_valid uses `{selfname}` other than through attribute reads (line {used_elsewhere[0]})")
    out = []
    for a in attrs:
        if a not in out: out.append(a)
    return out


def ast_pass(repo: Path):
    src = (repo / "maze_dataset" / "tokenization" / "maze_tokenizer.py").read_text()
    tree = ast.parse(src)
    classes = {}     # qualname -> dict
    order = []       # definition order
    aliases = {}     # "NS.Alias" -> ast expr, ns

    def visit_class(node: ast.ClassDef, ns: str | None):
        q = f"{ns}.{node.name}" if ns else node.name
        bases = []
        for b in node.bases:
            if isinstance(b, ast.Name): bases.append(b.id)
            elif isinstance(b, ast.Attribute): bases.append(ast.unparse(b))
        own, methods, unsupported = [], {}, None
        for st in node.body:
            if isinstance(st, ast.AnnAssign) and isinstance(st.target, ast.Name):
                own.append((st.target.id, st.annotation))
            elif isinstance(st, (ast.FunctionDef, ast.AsyncFunctionDef)):
                methods[st.name] = dict(abstract=any(_dec_name(d) == "abstractmethod" for d in st.decorator_list), node=st)
        for d in node.decorator_list:
            if _dec_name(d) == "mark_as_unsupported":
                unsupported = d.args[0]
        classes[q] = dict(q=q, ns=ns, name=node.name, bases=bases, own=own, methods=methods, unsupported=unsupported,
                          is_dataclass=any(_dec_name(d) == "serializable_dataclass" for d in node.decorator_list), lineno=node.lineno)
        order.append(q)

    for node in tree.body:
        if isinstance(node, ast.ClassDef):
            is_ns = any(isinstance(b, ast.Name) and b.id.endswith("__TokenizerElementNamespace") for b in node.bases)
            if is_ns:
                for st in node.body:
                    if isinstance(st, ast.ClassDef):
                        visit_class(st, node.name)
                    elif isinstance(st, ast.AnnAssign) and isinstance(st.target, ast.Name) and st.value is not None \
                            and not isinstance(st.value, ast.Constant):
                        aliases[f"{node.name}.{st.target.id}"] = (st.value, node.name)
                    elif isinstance(st, ast.Assign) and len(st.targets) == 1 and isinstance(st.targets[0], ast.Name) \
                            and not isinstance(st.value, ast.Constant):
                        aliases[f"{node.name}.{st.targets[0].id}"] = (st.value, node.name)
            elif node.name in ("_TokenizerElement", "MazeTokenizerModular"):
                visit_class(node, None)

    def resolve(name: str, ns: str | None) -> str | None:
        if "." in name:
            return name if name in classes else None
        if ns and f"{ns}.{name}" in classes: return f"{ns}.{name}"
        return name if name in classes else None

    for c in classes.values():
        ps = [resolve(b, c["ns"]) for b in c["bases"]]
        ps = [p for p in ps if p]
        if len(ps) > 1: raise Unsupported(f"multiple modelled bases for {c['q']}")
        c["parent"] = ps[0] if ps else None

    def chain(q):
        out = []
        while q: out.append(q); q = classes[q]["parent"]
        return out   # mro restricted to modelled classes: [cls, parent, ..., root]

    # only the `_TokenizerElement` hierarchy and `MazeTokenizerModular` are modelled (drops e.g. TypedDict helpers)
    for q in list(order):
        if q != "MazeTokenizerModular" and "_TokenizerElement" not in chain(q):
            order.remove(q); del classes[q]

    def is_te(q): return "_TokenizerElement" in chain(q)[1:]

    def parse_type(e: ast.expr, ns):
        if isinstance(e, ast.Name) and e.id == "bool": return ("bool",)
        if isinstance(e, ast.Subscript) and getattr(e.value, "id", "") == "Literal":
            elts = e.slice.elts if isinstance(e.slice, ast.Tuple) else [e.slice]
            return ("lit", tuple(ast.literal_eval(x) for x in elts))
        if isinstance(e, ast.Subscript) and getattr(e.value, "id", "") == "tuple":
            elts = e.slice.elts if isinstance(e.slice, ast.Tuple) else [e.slice]
            return ("tuple", tuple(parse_type(x, ns) for x in elts))
        if isinstance(e, ast.BinOp) and isinstance(e.op, ast.BitOr):
            def flat(x): return flat(x.left) + flat(x.right) if isinstance(x, ast.BinOp) and isinstance(x.op, ast.BitOr) else [x]
            return ("union", None, tuple(parse_type(x, ns) for x in flat(e)))
        if isinstance(e, (ast.Name, ast.Attribute)):
            s = ast.unparse(e)
            r = resolve(s, ns)
            if r: return ("cls", r)
            a = s if s in aliases else (f"{ns}.{s}" if f"{ns}.{s}" in aliases else None)
            if a:
                t = parse_type(aliases[a][0], aliases[a][1])
                if t[0] == "union": return ("union", a, t[2])
                return t
        raise Unsupported(f"field type not finite-valued / not understood: {ast.unparse(e)}")

    for q in order:
        c = classes[q]
        fields: dict[str, tuple] = {}
        for anc in reversed(chain(q)):
            a = classes[anc]
            for fname, ann in a["own"]:
                fields[fname] = parse_type(ann, a["ns"])
            if is_te(anc):    # __init_subclass__ appends `_type_: Literal[repr(cls)]` after the class body's annotations
                fields["_type_"] = ("lit", (f"<class '{MODPATH}.{anc}'>",))
        c["fields"] = list(fields.items())
        abstract = set()
        for anc in reversed(chain(q)):
            a = classes[anc]
            for m, info in a["methods"].items():
                (abstract.add if info["abstract"] else abstract.discard)(m)
            if a["unsupported"] is not None:
                abstract.discard("is_valid")
        c["abstract"] = bool(abstract)
        # resolved is_valid (decorator assignment wins over the body of the same class)
        iv = None
        for anc in chain(q):
            a = classes[anc]
            if a["unsupported"] is not None:
                lam = a["unsupported"]
                if not isinstance(lam, ast.Lambda) or len(lam.args.args) != 1: raise Unsupported(f"mark_as_unsupported argument of {anc}")
                iv = (anc, _self_attrs(lam.body, lam.args.args[0].arg)); break
            if "is_valid" in a["methods"] and not a["methods"]["is_valid"]["abstract"]:
                fn = a["methods"]["is_valid"]["node"]
                iv = (anc, _self_attrs(fn, fn.args.args[0].arg)); break
        c["is_valid"] = iv
    subclasses = {q: [s for s in order if classes[s]["parent"] == q] for q in order}

    # validation dict keys (all_tokenizers.py)
    atree = ast.parse((repo / "maze_dataset" / "tokenization" / "all_tokenizers.py").read_text())
    vkeys = None
    for node in ast.walk(atree):
        tgt = node.target if isinstance(node, ast.AnnAssign) else (node.targets[0] if isinstance(node, ast.Assign) else None)
        if isinstance(tgt, ast.Name) and tgt.id == "MAZE_TOKENIZER_MODULAR_DEFAULT_VALIDATION_FUNCS":
            d = next(n for n in ast.walk(node.value) if isinstance(n, ast.Dict))
            vkeys = []
            for k, v in zip(d.keys, d.values):
                ks = ast.unparse(k)
                if ks in classes:
                    ok = (isinstance(v, ast.Lambda) and isinstance(v.body, ast.Call) and isinstance(v.body.func, ast.Attribute)
                          and v.body.func.attr == "is_valid" and isinstance(v.body.func.value, ast.Name)
                          and v.body.func.value.id == v.args.args[0].arg and not v.body.args)
                    if not ok: raise Unsupported(f"validation function for class key {ks} is not `lambda x: x.is_valid()`")
                    vkeys.append(("cls", ks))
                elif ks in aliases:
                    vkeys.append(("alias", ks))
                else:
                    raise Unsupported(f"validation key {ks} is neither a modelled class nor a union alias")
    if vkeys is None: raise Unsupported("MAZE_TOKENIZER_MODULAR_DEFAULT_VALIDATION_FUNCS not found")
    for c in classes.values():
        if "." in c["name"] or "(" in c["name"]: raise Unsupported("class name with '.' or '('")
    return dict(classes=classes, order=order, subclasses=subclasses, chain=chain, vkeys=vkeys, aliases=aliases)


# --------------------------------------------------------------------------------------------- import pass
def import_pass(repo: Path):
    if str(repo) not in sys.path: sys.path.insert(0, str(repo))
    import warnings; warnings.filterwarnings("ignore")
    import typing, types
    from muutils.misc import is_abstract
    from maze_dataset.tokenization import maze_tokenizer as mt
    from maze_dataset.tokenization import all_tokenizers as at

    def norm(t):
        if t is bool: return ("bool",)
        o = typing.get_origin(t)
        if o is typing.Literal: return ("lit", tuple(typing.get_args(t)))
        if o is tuple: return ("tuple", tuple(norm(x) for x in typing.get_args(t)))
        if o in (types.UnionType, typing.Union):
            return ("union", None, tuple(norm(x) for x in typing.get_args(t)))
        if isinstance(t, type) and hasattr(t, "__dataclass_fields__"): return ("cls", t.__qualname__)
        raise Unsupported(f"imported field type not understood: {t!r}")
    out, order = {}, []

    def walk(c):
        out[c.__qualname__] = dict(abstract=is_abstract(c), fields=[(k, norm(f.type)) for k, f in c.__dataclass_fields__.items()],
                                   subclasses=[s.__qualname__ for s in c.__subclasses__()], cls=c)
        order.append(c.__qualname__)
        for s in c.__subclasses__(): walk(s)
    walk(mt._TokenizerElement)
    walk(mt.MazeTokenizerModular)
    return dict(classes=out, order=order, mt=mt, at=at)


def strip_alias(t):
    if t[0] == "union": return ("union", None, tuple(strip_alias(x) for x in t[2]))
    if t[0] == "tuple": return ("tuple", tuple(strip_alias(x) for x in t[1]))
    return t


def compare(A, I):
    errs = []
    qa, qi = set(A["classes"]), set(I["classes"])
    if qa != qi: errs.append(f"class sets differ: only in source text {sorted(qa - qi)}, only after import {sorted(qi - qa)}")
    for q in sorted(qa & qi):
        a, i = A["classes"][q], I["classes"][q]
        if a["abstract"] != i["abstract"]: errs.append(f"{q}: abstract per ast={a['abstract']} per import={i['abstract']}")
        fa = [(k, strip_alias(t)) for k, t in a["fields"]]
        if fa != i["fields"]: errs.append(f"{q}: fields per ast={fa} per import={i['fields']}")
        if A["subclasses"][q] != i["subclasses"]: errs.append(f"{q}: subclasses per ast={A['subclasses'][q]} per import={i['subclasses']}")
    if errs: raise Unsupported("ast and import readings of the tokenizer class tree disagree: " + "; ".join(errs[:6]))


# ------------------------------------------------------------------------------------------------ emission
def lstr(s: str) -> str:
    return '"' + s.replace("\\", "\\\\").replace('"', '\\"') + '"'


LEAVES: dict[str, str] = {}


def lean_val(x) -> str:
    import dataclasses
    if isinstance(x, bool): return f"(.b {'true' if x else 'false'})"
    if isinstance(x, int): return f"(.lit (.int {x}))" if x >= 0 else f"(.lit (.int ({x})))"
    if isinstance(x, str): return f"(.lit (.str {lstr(x)}))"
    if isinstance(x, tuple): return "(.tup [" + ", ".join(lean_val(y) for y in x) + "])"
    if dataclasses.is_dataclass(x) and list(type(x).__dataclass_fields__) == ["_type_"]:
        nm = "v_" + type(x).__qualname__.replace(".", "_")
        LEAVES[nm] = f"(.obj {lstr(type(x).__qualname__)} [" + lean_val(x._type_) + "])"
        return nm
    if dataclasses.is_dataclass(x):
        return f"(.obj {lstr(type(x).__qualname__)} [" + ", ".join(lean_val(getattr(x, k)) for k in type(x).__dataclass_fields__) + "])"
    raise Unsupported(f"value not representable: {x!r}")


def ident(q: str) -> str:
    return "ty_" + q.replace(".", "_")


def build(repo: Path):
    A = ast_pass(repo)
    I = import_pass(repo)
    compare(A, I)
    from maze_dataset.utils import all_instances
    classes, chain = A["classes"], A["chain"]
    key_classes = [k for kind, k in A["vkeys"] if kind == "cls"]
    key_aliases = [k for kind, k in A["vkeys"] if kind == "alias"]
    vf = I["at"].MAZE_TOKENIZER_MODULAR_DEFAULT_VALIDATION_FUNCS

    def cls_pred(q) -> str:
        """resolved validation of a dataclass node: first key in mro order"""
        for anc in chain(q):
            if anc in key_classes: return "isValid"
        return "(fun _ => true)"

    # ---- is_valid tables (call the real methods)
    tbl = []
    for q in A["order"]:
        c = classes[q]
        if c["abstract"] or q == "MazeTokenizerModular" or q == "_TokenizerElement": continue
        cls = I["classes"][q]["cls"]
        owner, deps = c["is_valid"]
        fnames = [k for k, _ in c["fields"]]
        deps = [d for d in deps]
        for d in deps:
            if d not in fnames: raise Unsupported(f"{q}.is_valid (from {owner}) reads self.{d}, which is not a dataclass field")
        if len(deps) == 0:
            v = bool(cls().is_valid())
            tbl.append((q, ".all" if v else ".none"))
            pred = lambda inst, v=v: v
        elif len(deps) == 1:
            i = fnames.index(deps[0])
            raw = list(all_instances(cls.__dataclass_fields__[deps[0]].type, None))
            ok = [x for x in raw if bool(cls(**{deps[0]: x}).is_valid())]
            if len(ok) == len(raw): tbl.append((q, ".all"))
            elif not ok: tbl.append((q, ".none"))
            else: tbl.append((q, f".field {i} [" + ", ".join(lean_val(x) for x in ok) + "]"))
            pred = lambda inst, d=deps[0], ok=ok: getattr(inst, d) in ok
        else:
            raise Unsupported(f"{q}.is_valid reads {len(deps)} fields {deps}; the model's LPred tables cover one field")
        # sanity: table vs real method on a spread of raw instances
        for inst in itertools.islice(all_instances(cls, None), 0, 4000, 37):
            if bool(inst.is_valid()) != pred(inst):
                raise Unsupported(f"{q}.is_valid is not a function of the fields the source reads: {inst}")

    # ---- union aliases
    union_tables = {}
    for a in key_aliases:
        ns, nm = a.split(".")
        typ = getattr(getattr(I["mt"], ns), nm)
        if typ not in vf: raise Unsupported(f"validation key {a} missing after import")
        raw = list(all_instances(typ, None))
        union_tables[a] = [x for x in raw if bool(vf[typ](x))]
    if set(vf.keys()) != {getattr(I["mt"], k) if "." not in k else getattr(getattr(I["mt"], k.split(".")[0]), k.split(".")[1])
                          for _, k in A["vkeys"]}:
        raise Unsupported("validation keys per ast and per import differ")

    LEAVES.clear()
    L = ["import MazeVerif.Model.AllInst", "namespace MZ.Gen.Tok", "open MZ.AI", "", "@@LEAVES@@", ""]
    L.append("/-- per concrete class: the tabulated `is_valid` (resolved through inheritance and `mark_as_unsupported`) -/")
    L.append("def isValidTbl : List (String × LPred) := [\n  " + ",\n  ".join(f"({lstr(q)}, {p})" for q, p in tbl) + "]\n")
    L.append("/-- `lambda x: x.is_valid()` (the `_TokenizerElement` entry of the validation dict) -/\ndef isValid : Val → Bool := dispatch isValidTbl\n")
    for a, ok in union_tables.items():
        L.append(f"/-- accepted values of the validation function registered for the Union alias `{a}` ({len(ok)} of the raw instances) -/")
        L.append(f"def okTbl_{a.replace('.', '_')} : List Val := [\n  " + ",\n  ".join(lean_val(x) for x in ok) + "]\n")

    def ty_expr(t) -> str:
        if t[0] == "bool": return ".bool"
        if t[0] == "lit": return ".lit [" + ", ".join((f".str {lstr(x)}" if isinstance(x, str) else f".int {x}") for x in t[1]) + "]"
        if t[0] == "tuple": return ".tuple [" + ", ".join(ty_expr(x) for x in t[1]) + "]"
        if t[0] == "cls": return ident(t[1])
        if t[0] == "union":
            p = f"(inTable okTbl_{t[1].replace('.', '_')})" if (t[1] in key_aliases) else "(fun _ => true)"
            return f".union {p} [" + ", ".join(ty_expr(x) for x in t[2]) + "]"
        raise Unsupported(str(t))

    emitted, defs = set(), []

    def deps_of(q):
        c = classes[q]
        out = []
        def rec(t):
            if t[0] == "cls": out.append(t[1])
            elif t[0] == "tuple": [rec(x) for x in t[1]]
            elif t[0] == "union": [rec(x) for x in t[2]]
        if c["abstract"]:
            out.extend(A["subclasses"][q])
        else:
            for _, t in c["fields"]: rec(t)
        return out

    def emit_cls(q, stack=()):
        if q in emitted: return
        if q in stack: raise Unsupported(f"circular type reference through {q}")
        for d in deps_of(q): emit_cls(d, stack + (q,))
        c = classes[q]
        if c["abstract"]:
            defs.append(f"def {ident(q)} : Ty := .abstr {cls_pred(q)} [" + ", ".join(ident(s) for s in A["subclasses"][q]) + "]")
        else:
            defs.append(f"def {ident(q)} : Ty := .data {lstr(q)} {cls_pred(q)} [" + ", ".join(ty_expr(t) for _, t in c["fields"]) + "]")
        emitted.add(q)

    roots = [q for q in A["order"] if q != "_TokenizerElement"]
    for q in roots: emit_cls(q)
    L.extend(defs); L.append("")
    alias_defs = []
    for a, (e, ns) in A["aliases"].items():
        try:
            t = None
            # re-parse through a field that uses it (keeps one code path): find any field typed with this alias
            for c in classes.values():
                for _, ft in c["fields"]:
                    if ft[0] == "union" and ft[1] == a: t = ft
            if t is not None:
                alias_defs.append((a, ty_expr(t)))
        except Unsupported:
            pass
    for a, e in alias_defs:
        L.append(f"def ty_{a.replace('.', '_')} : Ty := {e}")
    L.append("")
    L.append("/-- every modelled type by its Python qualified name -/")
    L.append("def classTys : List (String × Ty) := [\n  " + ",\n  ".join(
        [f"({lstr(q)}, {ident(q)})" for q in roots] + [f"({lstr(a)}, ty_{a.replace('.', '_')})" for a, _ in alias_defs]) + "]\n")
    L.append("/-- keys of `self.__dict__` (= dataclass field names, in order) per class -/")
    L.append("def fieldNames (cls : String) : List String :=\n  match cls with\n" + "\n".join(
        f"  | {lstr(q)} => [" + ", ".join(lstr(k) for k, _ in classes[q]["fields"]) + "]" for q in roots) + "\n  | _ => []\n")
    L.append("/-- concrete classes: `__name__` → `__qualname__` (what `getattr(namespace, cls_name)` / muutils' loader registry resolve) -/")
    conc = [q for q in roots if not classes[q]["abstract"]]
    shorts = [classes[q]["name"] for q in conc]
    if len(set(shorts)) != len(shorts): raise Unsupported("two concrete tokenizer classes share a __name__")
    L.append("def resolveShort (s : String) : Option String :=\n  match s with\n" + "\n".join(
        f"  | {lstr(classes[q]['name'])} => some {lstr(q)}" for q in conc) + "\n  | _ => none\n")
    L.append("def concreteClasses : List String := [" + ", ".join(lstr(q) for q in conc) + "]\n")
    # legacy
    mt = I["mt"]
    leg = [(m.name, mt.MazeTokenizerModular.from_legacy(m)) for m in mt.TokenizationMode]
    L.append("/-- `MazeTokenizerModular.from_legacy(mode)` for every `TokenizationMode`, by calling it -/")
    L.append("def fromLegacy : List (String × Val) := [\n  " + ",\n  ".join(f"({lstr(n)}, {lean_val(v)})" for n, v in leg) + "]\n")
    L.append("/-- `MazeTokenizerModular()` -/\ndef defaultTokenizer : Val := " + lean_val(mt.MazeTokenizerModular()) + "\n")
    L.append("end MZ.Gen.Tok\n")
    L[L.index("@@LEAVES@@")] = "/-- instances of the field-less classes -/\n" + "\n".join(f"def {k} : Val := {v}" for k, v in LEAVES.items())
    return "\n".join(L)


def emitters(repo):
    """translate.py's `emit` puts a `/-! … -/` module doc in front of the body, after which Lean accepts no `import`;
    this generated file needs `import MazeVerif.Model.AllInst`, so it is written here (only when its text changes, like
    `emit` does) with a line-comment header, and nothing is handed back for `emit`."""
    body = build(Path(repo))
    import os
    out = Path(os.environ.get("VERIF_LEAN_DIR", str(Path(__file__).resolve().parent.parent / "lean"))) / "MazeVerif" / "Generated" / "TokenizerTypes.lean"
    txt = body.replace("import MazeVerif.Model.AllInst\n", "import MazeVerif.Model.AllInst\n"
                       "-- GENERATED by harness/translate_tokenizer_types.py from /repo's source on every run. Do not edit.\n", 1)
    if not out.exists() or out.read_text() != txt:
        out.parent.mkdir(parents=True, exist_ok=True)
        out.write_text(txt)
        print("translate_tokenizer_types: rewrote TokenizerTypes.lean")
    return []


if __name__ == "__main__":
    import os
    print(build(Path(os.environ.get("VERIF_REPO", "/repo"))))
