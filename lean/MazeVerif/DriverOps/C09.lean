import MazeVerif.DriverOps.Util
import MazeVerif.Model.MazeValue
namespace MZ.Drv.C09
open Lean MZ.Drv MZ.MV

def asArr (j : Json) : R Arr := do
  pure { dtype := ← getStr j "dtype", shape := ← getNatList j "shape", data := ← getIntList j "data" }

/-- maze JSON: {kind, conn, start?, end?, sol?, meta} -/
def asMaze (j : Json) : R Maze := do
  let conn ← asArr (← fld j "conn")
  let gm ← getStr j "meta"
  match ← getStr j "kind" with
  | "lattice" => pure (.lattice conn gm)
  | "targeted" => pure (.targeted conn (← asArr (← fld j "start")) (← asArr (← fld j "end")) gm)
  | "solved" => pure (.solved conn (← asArr (← fld j "start")) (← asArr (← fld j "end")) (← asArr (← fld j "sol")) gm)
  | k => throw s!"unknown maze kind {k}"

def errName : Err → String
  | .ValueError => "ValueError" | .AssertionError => "AssertionError" | .IndexError => "IndexError" | .TypeError => "TypeError"

def jRes (r : Except Err Bool) : Json :=
  match r with
  | .ok b => Json.bool b
  | .error e => Json.str (errName e)

def jKey : HashKey → Json
  | .one b => Json.arr #[jNats b]
  | .pair b1 b2 => Json.arr #[jNats b1, jNats b2]

def jArr (a : Arr) : Json := obj [("dtype", Json.str a.dtype), ("shape", jNats a.shape), ("data", jInts a.data)]

def jMazeRes (r : Except Err Maze) : Json :=
  match r with
  | .error e => obj [("ok", false), ("err", Json.str (errName e))]
  | .ok (.lattice ..) => obj [("ok", true), ("kind", "lattice")]
  | .ok (.targeted _ s e _) => obj [("ok", true), ("kind", "targeted"), ("start", jInts s.data), ("end", jInts e.data)]
  | .ok (.solved _ s e p _) => obj [("ok", true), ("kind", "solved"), ("start", jInts s.data), ("end", jInts e.data),
      ("sol", jInts p.data)]

def optInts (j : Json) (k : String) : R (Option (List Int)) :=
  match optFld j k with
  | none => pure none
  | some v => do pure (some (← asIntList v))

/-- ops:
  `C09.eq` {a, b} → {eq, ne, eq_rev, eq_old (dataclass-generated comparator, F1), key_a, key_b, key_equal}
  `C09.targeted` {conn, start, end} → {ok, err | start, end}
  `C09.solved` {conn, sol, start_arg, end_arg, allow_invalid} → {ok, err | start, end, sol}
  `C09.dataset` {cfg_eq, a:[maze], b:[maze]} → {eq}
  `C09.dedupe` {mazes:[maze with meta = its index]} → {kept:[meta]} -/
def handle (op : String) (j : Json) : R Json := do
  match op with
  | "C09.eq" =>
    let a ← asMaze (← fld j "a")
    let b ← asMaze (← fld j "b")
    pure <| obj [("eq", jRes (pyEq cmpArrayEqual a b)), ("ne", jRes (pyNe cmpArrayEqual a b)),
                 ("eq_rev", jRes (pyEq cmpArrayEqual b a)), ("eq_old", jRes (pyEq cmpElementwise a b)),
                 ("key_a", jKey (hashKey a)), ("key_b", jKey (hashKey b)),
                 ("key_equal", Json.bool (decide (hashKey a = hashKey b)))]
  | "C09.targeted" =>
    let conn ← asArr (← fld j "conn")
    pure <| jMazeRes (mkTargeted conn (← getIntList j "start") (← getIntList j "end") "")
  | "C09.solved" =>
    let conn ← asArr (← fld j "conn")
    let sol ← asArr (← fld j "sol")
    pure <| jMazeRes (mkSolved conn sol "" (← optInts j "start_arg") (← optInts j "end_arg") (← getBool j "allow_invalid"))
  | "C09.dataset" =>
    let a ← (← getArr j "a").mapM asMaze
    let b ← (← getArr j "b").mapM asMaze
    let ce ← getBool j "cfg_eq"
    pure <| obj [("eq", jRes (dsEq cmpArrayEqual (fun (_ _ : Unit) => ce) ⟨(), a⟩ ⟨(), b⟩))]
  | "C09.dedupe" =>
    let ms ← (← getArr j "mazes").mapM asMaze
    let kept := dedupe (fun k => k) ms
    let metaOf : Maze → String
      | .lattice _ g => g | .targeted _ _ _ g => g | .solved _ _ _ _ g => g
    pure <| obj [("kept", jStrs (kept.map metaOf))]
  | _ => throw s!"unknown op {op}"

end MZ.Drv.C09
