import MazeVerif.DriverOps.Util
import MazeVerif.Model.AllInst
import MazeVerif.Generated.TokenizerTypes
namespace MZ.Drv.C15
open Lean MZ.Drv MZ.AI MZ.Gen.Tok

mutual
def valToJson : Val → Json
  | .b x => Json.bool x
  | .lit (.str s) => obj [("s", Json.str s)]
  | .lit (.int i) => obj [("i", jInt i)]
  | .tup vs => obj [("t", Json.arr (valsToJson vs).toArray)]
  | .obj c fs => obj [("c", Json.str c), ("f", Json.arr (valsToJson fs).toArray)]
def valsToJson : List Val → List Json
  | [] => []
  | v :: vs => valToJson v :: valsToJson vs
end

partial def jsonToVal (j : Json) : R Val :=
  match j with
  | .bool x => pure (.b x)
  | _ =>
    match optFld j "s", optFld j "i", optFld j "t", optFld j "c" with
    | some s, _, _, _ => do pure (.lit (.str (← s.getStr?)))
    | _, some i, _, _ => do pure (.lit (.int (← i.getInt?)))
    | _, _, some t, _ => do pure (.tup (← (← t.getArr?).toList.mapM jsonToVal))
    | _, _, _, some c => do pure (.obj (← c.getStr?) (← (← getArr j "f").mapM jsonToVal))
    | _, _, _, _ => throw "value: expected bool | {s} | {i} | {t} | {c,f}"

mutual
def jToJson : J → Json
  | .bool x => Json.bool x
  | .str s => Json.str s
  | .int i => jInt i
  | .arr xs => Json.arr (jsToJson xs).toArray
  | .obj kv => Json.mkObj (kvToJson kv)
def jsToJson : List J → List Json
  | [] => []
  | x :: xs => jToJson x :: jsToJson xs
def kvToJson : List (String × J) → List (String × Json)
  | [] => []
  | (k, x) :: r => (k, jToJson x) :: kvToJson r
end

/-- the name the real object reports: `MazeTokenizerModular.name` for the tokenizer itself, `_TokenizerElement.name`
    (or the tuple rendering used inside it) otherwise -/
def nameOf (v : Val) : String :=
  match v with
  | .obj "MazeTokenizerModular" _ => (mtmName fieldNames v).getD "<no name>"
  | _ => elName fieldNames v

/-- cheap order-sensitive fingerprint over (length, byte sum) of the names; the harness computes the same -/
def cheapFp (names : List String) : Nat :=
  names.foldl (fun acc s => (acc * 1000003 + s.length * 1048576 + s.foldl (fun h c => h + c.toNat) 0) % (2 ^ 61 - 1)) 0

/-- ops:
  `C15.enum` {cls, names?:bool, vals?:bool, prefix?:n, idx?:[i..], fp?:bool} →
      {count, names?:[..], vals?:[..], at:[{i,name,val}], fp?}
  `C15.value` {cls, val} → {name, ser, load_ok, legacy, member}
  `C15.tables` {} → {classes:[..], legacy:[[mode,name]..], default} -/
def handle (op : String) (j : Json) : R Json := do
  match op with
  | "C15.enum" =>
    let cls ← getStr j "cls"
    match classTys.lookup cls with
    | none => throw s!"unknown class {cls}"
    | some ty =>
      let all := allInstances ty
      let n := all.length
      let lim := match optFld j "prefix" with
        | some p => (p.getNat?.toOption).getD n
        | none => n
      let pre := all.take lim
      let wantNames := (optFld j "names").isSome
      let wantVals := (optFld j "vals").isSome
      let idx ← match optFld j "idx" with
        | some a => asNatList a
        | none => pure []
      let arr := if idx.isEmpty then #[] else all.toArray
      let at_ := idx.filterMap fun i => arr[i]?.map fun v =>
        obj [("i", jNat i), ("name", Json.str (nameOf v)), ("val", valToJson v)]
      let mut kv := [("count", jNat n), ("at", Json.arr at_.toArray)]
      if wantNames then kv := kv ++ [("names", jStrs (pre.map nameOf))]
      if wantVals then kv := kv ++ [("vals", Json.arr (valsToJson pre).toArray)]
      if (optFld j "fp").isSome then kv := kv ++ [("fp", jNat (cheapFp (all.map nameOf)))]
      pure (obj kv)
  | "C15.value" =>
    let cls ← getStr j "cls"
    let v ← jsonToVal (← fld j "val")
    let member := match classTys.lookup cls with
      | some ty => checkTy ty v
      | none => false
    let s := ser fieldNames v
    let loadOk := match load resolveShort fieldNames s with
      | some w => decide (w = v)
      | none => false
    pure (obj [("name", Json.str (nameOf v)), ("ser", jToJson s), ("load_ok", Json.bool loadOk),
               ("legacy", Json.bool (isLegacyEquivalent fromLegacy v)), ("member", Json.bool member)])
  | "C15.tables" =>
    pure (obj [("classes", jStrs (classTys.map (·.1))),
               ("legacy", Json.arr (fromLegacy.map fun mv => Json.arr #[Json.str mv.1, Json.str (nameOf mv.2)]).toArray),
               ("default", valToJson defaultTokenizer)])
  | _ => throw s!"unknown op {op}"

end MZ.Drv.C15
