import MazeVerif.Model.AStar
/-! A* correctness for every legal pick sequence: closed-set argument with a consistent heuristic over an abstract graph. -/
namespace MZ.AStar

inductive Walk (Adj : Cell → Cell → Prop) : Cell → Cell → Nat → Prop
  | nil (a) : Walk Adj a a 0
  | cons {a b c n} : Adj a b → Walk Adj b c n → Walk Adj a c (n+1)

theorem Walk.snoc {Adj} {a b c : Cell} {n : Nat} (w : Walk Adj a b n) (h : Adj b c) : Walk Adj a c (n+1) := by
  induction w with
  | nil a => exact .cons h (.nil _)
  | cons hab _ ih => exact .cons hab (ih h)

/-- full invariant; `P c w` is the per-neighbour fact, `done` the neighbours of the node being expanded already relaxed -/
structure Inv (Adj : Cell → Cell → Prop) (h : Cell → Int) (start : Cell) (H0 : Int) (s : AS)
    (cur : Option Cell) (done : List Cell) : Prop where
  disj : ∀ v ∈ s.opn, v ∉ s.closed
  onodup : s.opn.Nodup
  gstart : s.g start = H0
  fdef : ∀ v ∈ s.opn, v ≠ start → s.f v = s.g v + h v
  copt : ∀ v ∈ s.closed, ∀ n, Walk Adj start v n → s.g v ≤ H0 + n
  cnbr : ∀ v ∈ s.closed, some v ≠ cur → ∀ w, Adj v w → w ∈ s.closed ∨ (w ∈ s.opn ∧ s.g w ≤ s.g v + 1)
  cdone : ∀ c, cur = some c → c ∈ s.closed ∧ ∀ w ∈ done, Adj c w → w ∈ s.closed ∨ (w ∈ s.opn ∧ s.g w ≤ s.g c + 1)
  phase : (s.closed = [] ∧ s.opn = [start]) ∨ start ∈ s.closed
  gwalk : ∀ v, v ∈ s.opn ∨ v ∈ s.closed → ∃ n : Nat, s.g v = H0 + n ∧ Walk Adj start v n
  srcI : ∀ v, v ∈ s.opn ∨ v ∈ s.closed → v ≠ start →
    ∃ u, s.src v = some u ∧ u ∈ s.closed ∧ Adj u v ∧ s.g v = s.g u + 1
  srcS : s.src start = none

theorem h_walk {Adj} {h : Cell → Int} (hc : ∀ a b, Adj a b → h a ≤ h b + 1) {a b : Cell} {n : Nat}
    (w : Walk Adj a b n) : h a ≤ h b + n := by
  induction w with
  | nil a => simp
  | cons hab _ ih => have := hc _ _ hab; omega

theorem frontier {Adj h start H0 s} (inv : Inv Adj h start H0 s none []) :
    ∀ {a t : Cell} {n : Nat}, Walk Adj a t n → ∀ k : Nat, Walk Adj start a k → a ∈ s.closed → t ∉ s.closed →
      ∃ u i m, u ∈ s.opn ∧ s.g u ≤ H0 + k + i ∧ Walk Adj u t m ∧ i + m = n := by
  intro a t n w
  induction w with
  | nil a => intro k _ ha ht; exact absurd ha ht
  | @cons a b c n hab wbc ih =>
    intro k wk ha ht
    rcases inv.cnbr a ha (by simp) b hab with hb | ⟨hbo, hbg⟩
    · obtain ⟨u, i, m, hu, hg, hw, him⟩ := ih (k+1) (wk.snoc hab) hb ht
      exact ⟨u, i+1, m, hu, by push_cast at hg ⊢; omega, hw, by omega⟩
    · have := inv.copt a ha k wk
      exact ⟨b, 1, n, hbo, by push_cast; omega, wbc, by omega⟩

theorem pick_optimal {Adj h start H0 s} (inv : Inv Adj h start H0 s none [])
    (hcons : ∀ a b, Adj a b → h a ≤ h b + 1)
    {c : Cell} (hc : c ∈ s.opn) (hmin : ∀ v ∈ s.opn, s.f c ≤ s.f v) :
    ∀ n, Walk Adj start c n → s.g c ≤ H0 + n := by
  intro n w
  rcases inv.phase with ⟨_, hopn⟩ | hsc
  · rw [hopn] at hc; simp at hc; subst hc; rw [inv.gstart]; omega
  · have hcn : c ∉ s.closed := inv.disj c hc
    obtain ⟨u, i, m, hu, hg, hw, him⟩ := frontier inv w 0 (.nil _) hsc hcn
    have hus : u ≠ start := fun e => inv.disj u hu (e ▸ hsc)
    have hcs : c ≠ start := fun e => hcn (e ▸ hsc)
    have h1 := inv.fdef u hu hus
    have h2 := inv.fdef c hc hcs
    have h3 := hmin u hu
    have h4 := h_walk hcons hw
    push_cast at hg
    omega

/-- closing the picked node -/
theorem inv_close {Adj h start H0 s} (inv : Inv Adj h start H0 s none [])
    (hcons : ∀ a b, Adj a b → h a ≤ h b + 1)
    {c : Cell} (hc : c ∈ s.opn) (hmin : ∀ v ∈ s.opn, s.f c ≤ s.f v) :
    Inv Adj h start H0 (close s c) (some c) [] := by
  have hcn : c ∉ s.closed := inv.disj c hc
  refine ⟨?_, ?_, inv.gstart, ?_, ?_, ?_, ?_, ?_, ?_, ?_, inv.srcS⟩
  · intro v hv
    have hv' : v ∈ s.opn := List.mem_of_mem_erase hv
    have hne : v ≠ c := fun e => by subst e; exact (List.Nodup.not_mem_erase inv.onodup) hv
    simp only [close, List.mem_cons, not_or]; exact ⟨hne, inv.disj v hv'⟩
  · exact inv.onodup.erase _
  · intro v hv; exact inv.fdef v (List.mem_of_mem_erase hv)
  · intro v hv n w
    simp only [close, List.mem_cons] at hv
    rcases hv with rfl | hv
    · exact pick_optimal inv hcons hc hmin n w
    · exact inv.copt v hv n w
  · intro v hv hne w hvw
    simp only [close, List.mem_cons] at hv ⊢
    have hvc : v ≠ c := fun e => hne (by rw [e])
    rcases hv with rfl | hv
    · exact absurd rfl hvc
    · rcases inv.cnbr v hv (by simp) w hvw with h1 | ⟨h1, h2⟩
      · exact Or.inl (Or.inr h1)
      · by_cases hwc : w = c
        · exact Or.inl (Or.inl hwc)
        · exact Or.inr ⟨(List.mem_erase_of_ne hwc).mpr h1, h2⟩
  · intro c' hc'
    simp only [Option.some.injEq] at hc'; subst hc'
    exact ⟨by simp [close], by simp⟩
  · right
    rcases inv.phase with ⟨_, hopn⟩ | hsc
    · rw [hopn] at hc; simp at hc; subst hc; simp [close]
    · simp [close, hsc]
  · intro v hv
    apply inv.gwalk
    simp only [close, List.mem_cons] at hv
    rcases hv with hv | rfl | hv
    · exact Or.inl (List.mem_of_mem_erase hv)
    · exact Or.inl hc
    · exact Or.inr hv
  · intro v hv hvs
    have : v ∈ s.opn ∨ v ∈ s.closed := by
      simp only [close, List.mem_cons] at hv
      rcases hv with hv | rfl | hv
      · exact Or.inl (List.mem_of_mem_erase hv)
      · exact Or.inl hc
      · exact Or.inr hv
    obtain ⟨u, h1, h2, h3, h4⟩ := inv.srcI v this hvs
    exact ⟨u, h1, by simp [close, h2], h3, h4⟩

/-- the two "write" branches of `relax` share this lemma: set `g nb := g c + 1` for a non-closed nb (new or improved) -/
theorem inv_write {Adj h start H0 s c done} (inv : Inv Adj h start H0 s (some c) done)
    {nb : Cell} (hadj : Adj c nb) (hncl : nb ∉ s.closed)
    (opn' : List Cell)
    (hopn : (nb ∈ s.opn ∧ opn' = s.opn) ∨ (nb ∉ s.opn ∧ opn' = s.opn ++ [nb]))
    (himp : nb ∈ s.opn → s.g c + 1 < s.g nb) :
    Inv Adj h start H0
      { s with opn := opn', src := upd s.src nb (some c), g := upd s.g nb (s.g c + 1),
               f := upd s.f nb (s.g c + 1 + h nb) } (some c) (nb :: done) := by
  obtain ⟨hcc, hdone⟩ := inv.cdone c rfl
  have hstartc : start ∈ s.closed := by
    rcases inv.phase with ⟨h0, _⟩ | h1
    · rw [h0] at hcc; simp at hcc
    · exact h1
  have hnbs : nb ≠ start := fun e => hncl (e ▸ hstartc)
  have hnbc : nb ≠ c := fun e => hncl (e ▸ hcc)
  have hmem : ∀ v, v ∈ opn' ↔ v ∈ s.opn ∨ v = nb := by
    intro v
    rcases hopn with ⟨h1, h2⟩ | ⟨h1, h2⟩
    · subst h2; constructor
      · exact Or.inl
      · rintro (h | rfl)
        · exact h
        · exact h1
    · subst h2; simp
  have hnd : opn'.Nodup := by
    rcases hopn with ⟨_, h2⟩ | ⟨h1, h2⟩
    · subst h2; exact inv.onodup
    · subst h2; rw [List.nodup_append]
      refine ⟨inv.onodup, by simp, ?_⟩
      intro a ha b hb; simp at hb; subst hb; intro hab; subst hab; exact h1 ha
  have gcl : ∀ v ∈ s.closed, upd s.g nb (s.g c + 1) v = s.g v :=
    fun v hv => upd_other _ _ (fun e => hncl (e ▸ hv))
  have gle : ∀ w, w ∈ s.opn → upd s.g nb (s.g c + 1) w ≤ s.g w := by
    intro w hw
    by_cases hwn : w = nb
    · subst hwn; simp only [upd_same]; have := himp hw; omega
    · rw [upd_other _ _ hwn]; omega
  refine ⟨?_, hnd, ?_, ?_, ?_, ?_, ?_, Or.inr hstartc, ?_, ?_, ?_⟩
  · intro v hv
    rcases (hmem v).mp hv with h1 | rfl
    · exact inv.disj v h1
    · exact hncl
  · show upd s.g nb (s.g c + 1) start = H0
    rw [upd_other _ _ (Ne.symm hnbs)]; exact inv.gstart
  · intro v hv hvs
    show upd s.f nb (s.g c + 1 + h nb) v = upd s.g nb (s.g c + 1) v + h v
    by_cases hvn : v = nb
    · subst hvn; simp
    · rw [upd_other _ _ hvn, upd_other _ _ hvn]
      rcases (hmem v).mp hv with h1 | h1
      · exact inv.fdef v h1 hvs
      · exact absurd h1 hvn
  · intro v hv n w
    show upd s.g nb (s.g c + 1) v ≤ H0 + n
    rw [gcl v hv]; exact inv.copt v hv n w
  · intro v hv hne w hvw
    show w ∈ s.closed ∨ (w ∈ opn' ∧ upd s.g nb (s.g c + 1) w ≤ upd s.g nb (s.g c + 1) v + 1)
    rw [gcl v hv]
    rcases inv.cnbr v hv hne w hvw with h1 | ⟨h1, h2⟩
    · exact Or.inl h1
    · exact Or.inr ⟨(hmem w).mpr (Or.inl h1), by have := gle w h1; omega⟩
  · intro c' hc'
    simp only [Option.some.injEq] at hc'; subst hc'
    refine ⟨hcc, ?_⟩
    intro w hw hcw
    show w ∈ s.closed ∨ (w ∈ opn' ∧ upd s.g nb (s.g c + 1) w ≤ upd s.g nb (s.g c + 1) c + 1)
    rw [gcl c hcc]
    simp only [List.mem_cons] at hw
    by_cases hwn : w = nb
    · subst hwn; right; exact ⟨(hmem w).mpr (Or.inr rfl), by simp⟩
    · rcases hw with hw | hw
      · exact absurd hw hwn
      · rcases hdone w hw hcw with h1 | ⟨h1, h2⟩
        · exact Or.inl h1
        · exact Or.inr ⟨(hmem w).mpr (Or.inl h1), by rw [upd_other _ _ hwn]; exact h2⟩
  · intro v hv
    show ∃ n : Nat, upd s.g nb (s.g c + 1) v = H0 + n ∧ Walk Adj start v n
    by_cases hvn : v = nb
    · subst hvn
      obtain ⟨n, hg, hw⟩ := inv.gwalk c (Or.inr hcc)
      exact ⟨n + 1, by simp only [upd_same]; push_cast; omega, hw.snoc hadj⟩
    · rw [upd_other _ _ hvn]
      apply inv.gwalk
      rcases hv with hv | hv
      · rcases (hmem v).mp hv with h1 | h1
        · exact Or.inl h1
        · exact absurd h1 hvn
      · exact Or.inr hv
  · intro v hv hvs
    show ∃ u, upd s.src nb (some c) v = some u ∧ u ∈ s.closed ∧ Adj u v ∧
        upd s.g nb (s.g c + 1) v = upd s.g nb (s.g c + 1) u + 1
    by_cases hvn : v = nb
    · subst hvn
      exact ⟨c, by simp, hcc, hadj, by rw [gcl c hcc]; simp⟩
    · have : v ∈ s.opn ∨ v ∈ s.closed := by
        rcases hv with hv | hv
        · rcases (hmem v).mp hv with h1 | h1
          · exact Or.inl h1
          · exact absurd h1 hvn
        · exact Or.inr hv
      obtain ⟨u, h1, h2, h3, h4⟩ := inv.srcI v this hvs
      exact ⟨u, by rw [upd_other _ _ hvn]; exact h1, h2, h3, by rw [upd_other _ _ hvn, gcl u h2]; exact h4⟩
  · show upd s.src nb (some c) start = none
    rw [upd_other _ _ (Ne.symm hnbs)]; exact inv.srcS

/-- processing one more neighbour without writing (closed, or no improvement) -/
theorem inv_skip {Adj h start H0 s c done} (inv : Inv Adj h start H0 s (some c) done) {nb : Cell}
    (hok : Adj c nb → nb ∈ s.closed ∨ (nb ∈ s.opn ∧ s.g nb ≤ s.g c + 1)) :
    Inv Adj h start H0 s (some c) (nb :: done) := by
  refine { inv with cdone := ?_ }
  intro c' hc'
  simp only [Option.some.injEq] at hc'; subst hc'
  obtain ⟨hcc, hdone⟩ := inv.cdone c rfl
  refine ⟨hcc, ?_⟩
  intro w hw hcw
  simp only [List.mem_cons] at hw
  rcases hw with rfl | hw
  · exact hok hcw
  · exact hdone w hw hcw

theorem inv_relax {Adj h start H0 s c done} (inv : Inv Adj h start H0 s (some c) done) {nb : Cell} (hadj : Adj c nb) :
    Inv Adj h start H0 (relax h c s nb) (some c) (nb :: done) := by
  unfold relax
  split
  · next hcl => exact inv_skip inv (fun _ => Or.inl hcl)
  · next hcl =>
    split
    · next hno => exact inv_write inv hadj hcl _ (Or.inr ⟨hno, rfl⟩) (fun h => absurd h hno)
    · next hin =>
      have hin' : nb ∈ s.opn := by simpa using hin
      split
      · next hge => exact inv_skip inv (fun _ => Or.inr ⟨hin', by omega⟩)
      · next hlt => exact inv_write inv hadj hcl _ (Or.inl ⟨hin', rfl⟩) (fun _ => by omega)

theorem inv_fold {Adj h start H0 c} : ∀ (l : List Cell) (done : List Cell) (s : AS),
    Inv Adj h start H0 s (some c) done → (∀ nb ∈ l, Adj c nb) →
    Inv Adj h start H0 (l.foldl (relax h c) s) (some c) (l.reverse ++ done)
  | [], done, s, inv, _ => by simpa using inv
  | nb :: l, done, s, inv, hl => by
    have := inv_fold l (nb :: done) (relax h c s nb) (inv_relax inv (hl nb (by simp)))
      (fun x hx => hl x (List.mem_cons_of_mem _ hx))
    simpa [List.reverse_cons, List.append_assoc] using this

theorem inv_finish {Adj h start H0 s c done} (inv : Inv Adj h start H0 s (some c) done)
    (hall : ∀ w, Adj c w → w ∈ done) : Inv Adj h start H0 s none [] := by
  obtain ⟨hcc, hdone⟩ := inv.cdone c rfl
  refine { inv with cnbr := ?_, cdone := ?_ }
  · intro v hv _ w hvw
    by_cases hvc : v = c
    · subst hvc; exact hdone w (hall w hvw) hvw
    · exact inv.cnbr v hv (by simpa using hvc) w hvw
  · intro c' hc'; simp at hc'

/-- one full iteration of the main loop preserves the invariant -/
theorem inv_expand {Adj h start H0 s} {N : Cell → List Cell} (hN : ∀ a b, b ∈ N a ↔ Adj a b)
    (hcons : ∀ a b, Adj a b → h a ≤ h b + 1)
    (inv : Inv Adj h start H0 s none []) {c : Cell} (hc : c ∈ s.opn) (hmin : ∀ v ∈ s.opn, s.f c ≤ s.f v) :
    Inv Adj h start H0 (expand N h s c) none [] := by
  have h1 := inv_close inv hcons hc hmin
  have h2 := inv_fold (N c) [] _ h1 (fun nb hnb => (hN c nb).mp hnb)
  exact inv_finish h2 (fun w hw => by simp [(hN c w).mpr hw])

theorem inv_init {Adj : Cell → Cell → Prop} {h : Cell → Int} {start : Cell} {H0 : Int} (g0 f0 : Cell → Int) (hg : g0 start = H0) :
    Inv Adj h start H0 { g := g0, f := f0, opn := [start], closed := [], src := fun _ => none } none [] := by
  refine ⟨by simp, by simp, hg, ?_, by simp, by simp, by simp, Or.inl ⟨rfl, rfl⟩, ?_, ?_, rfl⟩
  · intro v hv hvs; simp at hv; exact absurd hv hvs
  · intro v hv; simp at hv; subst hv; exact ⟨0, by simp [hg], .nil _⟩
  · intro v hv hvs; simp at hv; exact absurd hv hvs

/-- path reconstruction: follow `source` back to the start (python builds it reversed, then `[::-1]`) -/
def IsWalkList (Adj : Cell → Cell → Prop) : List Cell → Prop
  | [] => False
  | [_] => True
  | a :: b :: rest => Adj a b ∧ IsWalkList Adj (b :: rest)

theorem isWalkList_snoc {Adj} : ∀ {l : List Cell} {u v : Cell}, IsWalkList Adj l → l.getLast? = some u → Adj u v →
    IsWalkList Adj (l ++ [v])
  | [], _, _, h, _, _ => h.elim
  | [a], u, v, _, hl, huv => by simp at hl; subst hl; exact ⟨huv, trivial⟩
  | a :: b :: rest, u, v, h, hl, huv => by
    have : IsWalkList Adj ((b :: rest) ++ [v]) := isWalkList_snoc h.2 (by simpa using hl) huv
    exact ⟨h.1, this⟩

theorem recon_spec {Adj h start H0 s} (inv : Inv Adj h start H0 s none []) :
    ∀ (n : Nat) (k : Nat) (v : Cell), (v ∈ s.opn ∨ v ∈ s.closed) → s.g v = H0 + n → n ≤ k →
      (recon s.src k v).head? = some start ∧ (recon s.src k v).getLast? = some v ∧
      (recon s.src k v).length = n + 1 ∧ IsWalkList Adj (recon s.src k v) := by
  intro n
  induction n with
  | zero =>
    intro k v hv hg _
    have hvs : v = start := by
      by_cases e : v = start
      · exact e
      · obtain ⟨u, _, hu, _, hgu⟩ := inv.srcI v hv e
        obtain ⟨m, hm, _⟩ := inv.gwalk u (Or.inr hu)
        simp at hg; omega
    subst hvs
    cases k with
    | zero => simp [recon, IsWalkList]
    | succ k => simp [recon, inv.srcS, IsWalkList]
  | succ n ih =>
    intro k v hv hg hk
    have hvs : v ≠ start := by
      intro e; subst e; rw [inv.gstart] at hg; push_cast at hg; omega
    obtain ⟨u, hsu, hu, huv, hgu⟩ := inv.srcI v hv hvs
    cases k with
    | zero => omega
    | succ k =>
      obtain ⟨h1, h2, h3, h4⟩ := ih k u (Or.inr hu) (by push_cast at hg ⊢; omega) (by omega)
      simp only [recon, hsu]
      refine ⟨?_, by simp, by simp [h3], isWalkList_snoc h4 h2 huv⟩
      cases hr : recon s.src k u with
      | nil => rw [hr] at h3; simp at h3
      | cons a as => rw [hr] at h1; simpa using h1

theorem run_spec {Adj h start H0 endc} {N : Cell → List Cell} (hN : ∀ a b, b ∈ N a ↔ Adj a b)
    (hcons : ∀ a b, Adj a b → h a ≤ h b + 1) :
    ∀ (fuel : Nat) (s : AS) (picks : List Cell), Inv Adj h start H0 s none [] → endc ∉ s.closed →
      (∀ path, run N h endc H0 fuel s picks = .found path →
          ∃ n : Nat, (path.head? = some start ∧ path.getLast? = some endc ∧ path.length = n + 1 ∧ IsWalkList Adj path) ∧
            Walk Adj start endc n ∧ ∀ m, Walk Adj start endc m → n ≤ m) ∧
      (run N h endc H0 fuel s picks = .noPath → ∀ m, ¬ Walk Adj start endc m) := by
  intro fuel
  induction fuel with
  | zero => intro s picks _ _; simp [run]
  | succ fuel ih =>
    intro s picks inv hend
    unfold run
    split
    · next hempty =>
      refine ⟨by simp, fun _ m w => ?_⟩
      rcases inv.phase with ⟨_, h2⟩ | hsc
      · rw [h2] at hempty; simp at hempty
      · obtain ⟨u, _, _, hu, _⟩ := frontier inv w 0 (.nil _) hsc hend
        rw [hempty] at hu; simp at hu
    · split
      · simp
      · next c rest =>
        split
        · next hlegal =>
          split
          · next hce =>
            subst hce
            refine ⟨?_, by simp⟩
            intro path hp
            simp only [Result.found.injEq] at hp; subst hp
            obtain ⟨n, hg, hw⟩ := inv.gwalk c (Or.inl hlegal.1)
            have hfuel : (s.g c - H0).toNat = n := by omega
            rw [hfuel]
            refine ⟨n, recon_spec inv n n c (Or.inl hlegal.1) hg (Nat.le_refl _), hw, ?_⟩
            intro m wm
            have := pick_optimal inv hcons hlegal.1 hlegal.2 m wm
            omega
          · next hce =>
            have inv' := inv_expand hN hcons inv hlegal.1 hlegal.2
            have hend' : endc ∉ (expand N h s c).closed := by
              -- closed only gains c
              have hcl : ∀ (l : List Cell) (t : AS), (l.foldl (relax h c) t).closed = t.closed := by
                intro l; induction l with
                | nil => intro t; rfl
                | cons x xs ihx =>
                  intro t; simp only [List.foldl_cons]; rw [ihx]
                  unfold relax; split
                  · rfl
                  · split
                    · rfl
                    · split <;> rfl
              simp only [expand, hcl, close, List.mem_cons, not_or]
              exact ⟨fun e => hce e.symm, hend⟩
            exact ih _ _ inv' hend'
        · simp

end MZ.AStar
