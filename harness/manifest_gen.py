#!/usr/bin/env python3
"""Regenerates /verif/MANIFEST.json from the table below (kept in one place so the manifest stays valid)."""
import json
from pathlib import Path
VERIF = Path(__file__).resolve().parent.parent

# one file per claimed property: harness/claims/<Cxx>.json = {technique, level_text, level_note, design_ref}
CLAIMS = {}
for f in sorted((VERIF / "harness" / "claims").glob("C*.json")):
    d = json.loads(f.read_text())
    CLAIMS[f.stem] = (d["technique"], d["level_text"], d["level_note"], d["design_ref"])
ALL = [f"C{i:02d}" for i in range(1, 21)]
NOT_YET = "machinery for this property is not built yet in this round (planned: DESIGN.md section 6); not claimed until its check exists"

m = dict(
 version=1,
 setup_cmd="./setup.sh",
 hooks=dict(guard="MAZE_DATASET_VERIF", enable="no source hooks: the harness observes the code from outside (RNG taps, module-global shadows); MAZE_DATASET_VERIF=1 is set by ./check and read only by the harness",
            baseline_off_cmd="cd /repo && /venv/bin/python -m pytest -ra -q -p no:cacheprovider --timeout=900 --continue-on-collection-errors",
            source_commits=[], add_only=True),
 engines=[dict(name="MazeVerif", path="lean/", serves_properties=sorted(CLAIMS), kind_free_text="Lean 4.33 library: executable models (Model/), lemmas (Lemmas/), property theorems (Props/), compiled JSON line-protocol driver (mzdriver)"),
          dict(name="harness", path="harness/", serves_properties=sorted(CLAIMS), kind_free_text="Python correspondence harness: runs the real code in-process, taps RNG, diffs against the Lean driver, failing-input search, evidence")],
 checks=[dict(property_id=p, quick_cmd=f"./check {p} --tier quick", thorough_cmd=f"./check {p} --tier thorough",
              evidence_file=f"evidence/{p}.json", replay_cmd_template=f"./check {p} --replay {{path}}", engine="MazeVerif",
              level_claimed=dict(category="proof", text=CLAIMS[p][1], design_ref=CLAIMS[p][3]), level_note=CLAIMS[p][2], technique=CLAIMS[p][0])
         for p in sorted(CLAIMS)],
 notes="Machine-checked Lean 4 proofs about hand-written executable models, tied to /repo's working tree on every run by a translator for constants and a model-vs-implementation correspondence check. See DESIGN.md.",
 not_applicable=[dict(property_id=p, reason=NOT_YET) for p in ALL if p not in CLAIMS],
)
(VERIF / "MANIFEST.json").write_text(json.dumps(m, indent=1) + "\n")
print("claimed:", sorted(CLAIMS))
