"""C17 — rasterized input/target images show the problem and only the solution.

Correspondence: real process_maze_rasterized_input_target / _remove_isolated_cells / _extend_pixels / RasterizedMazeDataset.__getitem__ /
get_batch vs. the Lean model MZ.Pix.processRaster / removeIsolated / extendPixels / getBatchPy (driver ops C17.process / C17.post / C17.batch),
exact per-pixel equality.  Oracle (independent of the model): a plain-Python renderer written from the property statement."""
from __future__ import annotations
import json, random, sys, warnings, zlib
from pathlib import Path
import c10 as P

RULE = ("solved mazes from every real generator (gen_dfs, gen_wilson, gen_percolation, gen_dfs_percolation incl. low p => isolated cells, gen_prim if present) "
        "and from the harness' own random structures, grid 2..10 (square for the generators, oblong for own structures), random endpoint pair in one component with a "
        "BFS shortest path, plus self-avoiding non-shortest solutions; each maze x all 8 (remove_isolated_cells, extend_pixels, endpoints_as_open) combinations, "
        "every pixel compared; plus random RGB images (walls, isolated pixels on border/corners, marker colours) through _remove_isolated_cells/_extend_pixels alone; "
        "plus RasterizedMazeDataset batches with random index lists (repeats, negative, out of range, None, empty). non-trivial = solution of >=2 cells; "
        "distinct = distinct (maze, solution, options); later additions: short solutions, options switched on a live dataset, the item overwritten by the caller and asked for again")
ASSUMPTIONS = ["torch.tensor/np.array/torch.stack only re-box the arrays (checked: every value compared after the real calls)",
               "np.repeat / np.pad / boolean-mask assignment behave as documented (validated on every case by exact comparison)",
               "mazes are built through the public SolvedMaze constructor with a solution that walks through open connections (what the dataset generator produces)"]
TRUSTED = ["C17_batch_order is parametric in the item type; identity of the stacked items is checked by value by the harness"]

OPTS = [(a, b, c) for a in (False, True) for b in (False, True) for c in (False, True)]


def _mods():
    import numpy as np
    from maze_dataset.dataset import rasterized as R
    from maze_dataset.maze import lattice_maze as LM
    return np, R, LM


# ---------------------------------------------------------------- oracle (from the statement)
def _ric(img, wall):
    H, W = len(img), len(img[0])
    out = [row[:] for row in img]
    for x in range(H):
        for y in range(W):
            if img[x][y] != wall:
                nb = [(x + 1, y), (x - 1, y), (x, y + 1), (x, y - 1)]
                if all((not (0 <= a < H and 0 <= b < W)) or img[a][b] == wall for a, b in nb):
                    out[x][y] = wall
    return out


def _ext(img, wall):
    H, W = len(img), len(img[0])
    out = [[wall] * (2 * W + 2) for _ in range(2 * H + 2)]
    for x in range(2 * H):
        for y in range(2 * W):
            out[x + 1][y + 1] = img[x // 2][y // 2]
    return out


def _expected(case, ric, ext, eo):
    col, _ = P._colors()
    inp = P._expected_image(case, True, False, col)       # the picture with the solution hidden, endpoints kept
    H, W = len(inp), len(inp[0])
    tgt = [[col["WALL"]] * W for _ in range(H)]
    sol = case["solution"]
    for a in sol:
        tgt[2 * a[0] + 1][2 * a[1] + 1] = col["OPEN"]
    for a, b in zip(sol, sol[1:]):
        tgt[a[0] + b[0] + 1][a[1] + b[1] + 1] = col["OPEN"]
    s, e = sol[0], sol[-1]
    tgt[2 * s[0] + 1][2 * s[1] + 1] = col["OPEN"] if eo else col["START"]
    tgt[2 * e[0] + 1][2 * e[1] + 1] = col["OPEN"] if eo else col["END"]
    if ric: inp, tgt = _ric(inp, col["WALL"]), _ric(tgt, col["WALL"])
    if ext: inp, tgt = _ext(inp, col["WALL"]), _ext(tgt, col["WALL"])
    return inp, tgt


def _first_diff(a, b):
    if len(a) != len(b) or (a and len(a[0]) != len(b[0])):
        return f"size {len(a)}x{len(a[0]) if a else 0} vs expected {len(b)}x{len(b[0]) if b else 0}"
    for x in range(len(a)):
        for y in range(len(a[0])):
            if a[x][y] != b[x][y]:
                return f"pixel ({x},{y}) is {a[x][y]:06x}, the statement requires {b[x][y]:06x}"
    return None


# ---------------------------------------------------------------- cases
def _gen_cases(rng, n):
    """solved mazes: real generators (seeded from rng) + own structures"""
    np, R, LM = _mods()
    from maze_dataset.generation.generators import LatticeMazeGenerators as G
    gens = [("gen_dfs", {}), ("gen_wilson", {}), ("gen_percolation", dict(p=0.2)), ("gen_percolation", dict(p=0.5)),
            ("gen_dfs_percolation", dict(p=0.1)), ("gen_dfs_percolation", dict(p=0.3)), ("gen_dfs", dict(accessible_cells=5)),
            ("gen_dfs", dict(do_forks=False))]
    if hasattr(G, "gen_prim"): gens.append(("gen_prim", {}))
    out = []
    for k in range(n):
        which = rng.randrange(len(gens) + 3)
        if which < len(gens):
            name, kw = gens[which]
            g = rng.randint(2, 10)
            np.random.seed(rng.randrange(2 ** 32)); random.seed(rng.randrange(2 ** 32))
            try:
                m = getattr(G, name)(np.array([g, g]), **kw)
            except Exception:
                continue
            cl = np.asarray(m.connection_list)
            r, c = g, g
            edges = [[int(d), int(i), int(j)] for d, i, j in np.argwhere(cl)]
            tag = name + (":" + ",".join(f"{a}={b}" for a, b in kw.items()) if kw else "")
        else:
            r, c = rng.randint(2, 10), rng.randint(2, 10)
            edges, mode = P._random_structure(rng, r, c)
            tag = "own:" + mode
        if any((d == 0 and i + 1 >= r) or (d == 1 and j + 1 >= c) for d, i, j in edges):
            continue   # generators never set these bits; skip rather than claim
        conn = {tuple(e) for e in edges}
        cells = [(i, j) for i in range(r) for j in range(c)]
        s = rng.choice(cells)
        # endpoint in the same component
        comp = [x for x in cells if P._bfs_path(r, c, conn, s, x, P.ORD1) is not None] if r * c <= 36 else None
        if comp is None:
            w = P._random_walk_solution(rng, r, c, conn, s, 4 * (r + c))
            e = tuple(w[rng.randrange(len(w))])
        else:
            e = rng.choice(comp)
        if rng.random() < 0.25:
            sol = P._random_walk_solution(rng, r, c, conn, s, rng.randint(1, 3 * (r + c))); tag += "|walk"
        else:
            sol = P._bfs_path(r, c, conn, s, e, P.ORD1 if rng.random() < 0.5 else P.ORD2)
        out.append(dict(rows=r, cols=c, edges=edges, kind="solved", solution=sol, tag=tag))
        if sol and rng.random() < 0.4:     # very short solutions: start = end, adjacent start/end, one cell in between
            full = P._bfs_path(r, c, conn, s, e, P.ORD1) or sol
            for L in (1, 2, 3):
                if len(full) >= L: out.append(dict(rows=r, cols=c, edges=edges, kind="solved", solution=[list(x) for x in full[:L]], tag=tag + f"|len{L}"))
    return out


def _random_images(rng, n):
    col, _ = P._colors()
    pal = [col["WALL"]] * 4 + [col["OPEN"]] * 3 + [col["START"], col["END"], col["PATH"], 0x010000, 0x808080]
    out = []
    for _ in range(n):
        H, W = rng.randint(1, 7), rng.randint(1, 7)
        dens = rng.choice([0.15, 0.4, 0.7])
        out.append([[rng.choice(pal) if rng.random() < dens else col["WALL"] for _ in range(W)] for _ in range(H)])
    return out


def _to_arr(img):
    np, R, LM = _mods()
    return np.array([[[p >> 16, (p >> 8) & 255, p & 255] for p in row] for row in img], dtype=np.uint8)


# ---------------------------------------------------------------- evaluation
def eval_chunk(cases, workdir, tag, use_model=True, stop_at_first=False):
    import common as C
    np, R, LM = _mods()
    warnings.filterwarnings("ignore")
    res = dict(evals=0, nontrivial=[], hist={}, disagreements=[], violations=[], validated=0, samples=[])
    reqs, impls = [], []
    for case in cases:
        cc = P._canon_case(case)
        try:
            maze = P._real_maze(case)
        except Exception as e:
            res["hist"]["rejected:" + type(e).__name__] = res["hist"].get("rejected:" + type(e).__name__, 0) + 1
            continue
        for b in (f"grid={case['rows']}x{case['cols']}", f"gen={case.get('tag', '?')}", f"sol_len={min(len(case['solution']), 30)}"):
            res["hist"][b] = res["hist"].get(b, 0) + 1
        for ric, ext, eo in OPTS:
            opt = dict(ric=ric, ext=ext, eo=eo)
            try:
                t = R.process_maze_rasterized_input_target(maze, remove_isolated_cells=ric, extend_pixels=ext, endpoints_as_open=eo)
                arr = np.asarray(t)
                impl = dict(ok=dict(input=P._code_img(arr[0]), target=P._code_img(arr[1])))
            except Exception as e:  # noqa: BLE001
                impl = dict(err=P._exc(e))
            res["evals"] += 1
            if len(case["solution"]) >= 2:
                res["nontrivial"].append(json.dumps(dict(cc, **opt), sort_keys=True))
            # oracle
            if P._valid_solution(case):
                if "err" in impl:
                    res["violations"].append(dict(what=f"process_maze_rasterized_input_target raised {impl['err']} on a valid solved maze, options {opt}", case=dict(cc, **opt)))
                else:
                    ei, et = _expected(case, ric, ext, eo)
                    d = _first_diff(impl["ok"]["input"], ei)
                    if d: res["violations"].append(dict(what=f"input image (options {opt}): {d}", case=dict(cc, **opt)))
                    d = _first_diff(impl["ok"]["target"], et)
                    if d: res["violations"].append(dict(what=f"target image (options {opt}): {d}", case=dict(cc, **opt)))
            if res["violations"] and stop_at_first:
                return res
            reqs.append(dict(op="C17.process", maze=cc, **opt)); impls.append((dict(cc, **opt), impl))
    if use_model and reqs:
        drv = C.Driver(Path(workdir)); drv.n = tag
        for (cc, impl), o in zip(impls, drv.run(reqs)):
            if "error" in o:
                res["disagreements"].append(dict(what=f"driver error {o['error']}", case=cc)); continue
            res["validated"] += 1
            if o["out"] != impl:
                d = "error/ok mismatch"
                if "ok" in o["out"] and "ok" in impl:
                    d = "input: " + str(_first_diff(impl["ok"]["input"], o["out"]["ok"]["input"])) + "; target: " + str(_first_diff(impl["ok"]["target"], o["out"]["ok"]["target"]))
                res["disagreements"].append(dict(what=f"model and code differ on {json.dumps(cc)[:300]}: {d} (code vs model)", case=cc))
            elif len(res["samples"]) < 1 and cc["ric"] and not cc["ext"] and len(cc["solution"]) > 2 and cc["rows"] <= 3:
                res["samples"].append(dict(case=cc, target=impl["ok"]["target"]))
    return res


def _post_checks(ctx, images):
    np, R, LM = _mods()
    col, _ = P._colors()
    reqs, impls = [], []
    for img in images:
        arr = _to_arr(img)
        for what, f, orc in (("ric", LM._remove_isolated_cells, _ric), ("ext", R._extend_pixels, _ext)):
            got = P._code_img(np.asarray(f(arr.copy())))
            ctx.case(dict(post=what, img=img)); ctx.count("post:" + what)
            d = _first_diff(got, orc(img, col["WALL"]))
            if d:
                ctx.violate(f"{'_remove_isolated_cells' if what == 'ric' else '_extend_pixels'} on image {img}: {d}", dict(post=what, pixels=img))
            reqs.append(dict(op="C17.post", pixels=img, what=what)); impls.append(got)
    for rq, got, o in zip(reqs, impls, ctx.driver.run(reqs)):
        ctx.traces_validated += 1
        if o.get("out") != got:
            ctx.disagree(f"model and code differ on {rq['what']} of image {rq['pixels']}: {_first_diff(got, o.get('out') or [[]])} (code vs model)", rq)


def _batch_checks(ctx, n_datasets):
    np, R, LM = _mods()
    import torch
    from maze_dataset import MazeDataset, MazeDatasetConfig
    reqs, impls = [], []
    for _ in range(n_datasets):
        g = ctx.rng.randint(2, 5)
        k = ctx.rng.randint(1, 5)
        cases = []
        while len(cases) < k:
            edges, _m = P._random_structure(ctx.rng, g, g)
            conn = {tuple(e) for e in edges}
            sol = P._random_walk_solution(ctx.rng, g, g, conn, (ctx.rng.randrange(g), ctx.rng.randrange(g)), ctx.rng.randint(1, 8))
            cases.append(dict(rows=g, cols=g, edges=edges, kind="solved", solution=sol))
        mazes = [P._real_maze(c) for c in cases]
        opt = ctx.rng.choice(OPTS)
        base = MazeDataset(MazeDatasetConfig(name="b", grid_n=g, n_mazes=k), mazes)
        ds = R.RasterizedMazeDataset.from_base_MazeDataset(base, added_params=dict(remove_isolated_cells=opt[0], extend_pixels=opt[1], endpoints_as_open=opt[2]))
        items = [_expected(c, *opt) for c in cases]
        # __getitem__ uses the configured options
        for i in range(k):
            got = np.asarray(ds[i])
            ctx.case(dict(getitem=i, cases=cases, opt=opt))
            if P._code_img(got[0]) != items[i][0] or P._code_img(got[1]) != items[i][1]:
                ctx.violate(f"RasterizedMazeDataset[{i}] with options {opt} is not the input/target pair of maze {i}", dict(cases=cases, opt=opt, index=i), key="unlisted")
            else:
                # the caller owns the item it was given (a training loop normalises or augments it in place): ask for it again afterwards
                item = ds[i]
                try:
                    item[...] = 7
                except Exception:
                    item = None
                if item is not None:
                    again = np.asarray(ds[i])
                    if P._code_img(again[0]) != items[i][0] or P._code_img(again[1]) != items[i][1]:
                        ctx.violate(f"RasterizedMazeDataset[{i}] (options {opt}) asked for again after the caller had overwritten the item it was given first "
                                    f"is no longer the input/target pair of maze {i}", dict(cases=cases, opt=opt, index=i, caller_edit=True), key="unlisted")
        # the options of a LIVE dataset are switched and the same items requested again: they must follow the options as they are now
        for _sw in range(2):
            new = ctx.rng.choice([o for o in OPTS if o != opt])
            try:
                ds.cfg.remove_isolated_cells, ds.cfg.extend_pixels, ds.cfg.endpoints_as_open = new
            except Exception:
                break
            for i in range(k):
                got = np.asarray(ds[i]); want = _expected(cases[i], *new)
                ctx.case(dict(getitem=i, cases=cases, opt=new, switched_from=opt))
                if P._code_img(got[0]) != want[0] or P._code_img(got[1]) != want[1]:
                    ctx.violate(f"RasterizedMazeDataset[{i}] after switching the dataset's options from {opt} to {new} (items had been requested before) "
                                f"is not the input/target pair for the options as they are now", dict(cases=cases, opt=new, switched_from=opt, index=i), key="unlisted")
                    break
            opt = new
        items = [_expected(c, *opt) for c in cases]
        for _j in range(4):
            idxs = ctx.rng.choice([None, [], [ctx.rng.randrange(-k - 1, k + 1) for _ in range(ctx.rng.randint(1, 6))],
                                   [ctx.rng.randrange(k) for _ in range(ctx.rng.randint(1, 6))], list(range(k))[::-1]])
            try:
                b = np.asarray(ds.get_batch(idxs))
                impl = dict(ok=dict(inputs=[P._code_img(x) for x in b[0]], targets=[P._code_img(x) for x in b[1]]))
            except Exception as e:  # noqa: BLE001
                impl = dict(err=P._exc(e))
            ctx.case(dict(batch=idxs, k=k, g=g, opt=opt)); ctx.count("batch:" + ("ok" if "ok" in impl else impl["err"]))
            # oracle: items in index order (Python indexing), for index lists that are in range
            ids = list(range(k)) if idxs is None else idxs
            if ids and all(-k <= i < k for i in ids):
                want = dict(ok=dict(inputs=[items[i][0] for i in ids], targets=[items[i][1] for i in ids]))
                if impl != want:
                    ctx.violate(f"get_batch({idxs}) over {k} mazes (options {opt}) does not stack the items in index order", dict(cases=cases, opt=opt, idxs=idxs))
            # model: same shape with item ids
            reqs.append(dict(op="C17.batch", n=k, idxs=idxs))
            if "ok" in impl:
                def ident(img, which):
                    hits = [i for i in range(k) if items[i][which] == img]
                    return hits
                impls.append(dict(ok=dict(inputs=[ident(x, 0) for x in impl["ok"]["inputs"]], targets=[ident(x, 1) for x in impl["ok"]["targets"]])))
            else:
                impls.append(impl)
    for rq, impl, o in zip(reqs, impls, ctx.driver.run(reqs)):
        ctx.traces_validated += 1
        mo = o.get("out")
        ok = False
        if mo is not None and "err" in mo and "err" in impl:
            ok = mo["err"] == impl["err"]
        elif mo is not None and "ok" in mo and "ok" in impl:
            mi, mt = mo["ok"]["inputs"], mo["ok"]["targets"]
            ok = (len(mi) == len(impl["ok"]["inputs"]) and all(x // 2 in hits for x, hits in zip(mi, impl["ok"]["inputs"]))
                  and all((x - 1) // 2 in hits for x, hits in zip(mt, impl["ok"]["targets"])))
        if not ok:
            ctx.disagree(f"get_batch model vs code: request {rq} model={str(mo)[:200]} code={str(impl)[:200]}", rq)


def _run_cases(ctx, cases, use_model=True):
    import common as C, os
    chunks = [cases[i:i + 25] for i in range(0, len(cases), 25)]
    if len(chunks) <= 1:
        for k, ch in enumerate(chunks): P._merge(ctx, eval_chunk(ch, ctx.workdir, 7000 + k, use_model))
        return
    from concurrent.futures import ProcessPoolExecutor
    import multiprocessing as mp
    with ProcessPoolExecutor(min(16, os.cpu_count() or 1), mp_context=mp.get_context("fork")) as ex:
        for res in ex.map(_worker, [(ch, str(ctx.workdir), 7000 + k, use_model, str(C.REPO)) for k, ch in enumerate(chunks)]):
            P._merge(ctx, res)


def _worker(args):
    cases, workdir, tag, use_model, repo = args
    return eval_chunk(cases, workdir, tag, use_model)


def run(ctx):
    warnings.filterwarnings("ignore")
    cases = []
    corpus = Path(__file__).resolve().parent / "corpus" / "C17"
    if corpus.exists():
        cases += [json.loads(p.read_text()) for p in sorted(corpus.glob("*.json"))]
    # small exhaustive part: every structure on 2x2 and 2x3 x every connected ordered pair (shortest path)
    for cs in P._exhaustive([(2, 2), (2, 3)] if ctx.quick else [(2, 2), (2, 3), (3, 2), (3, 3)], stride=1 if ctx.quick else 3, offset=ctx.seed):
        if cs["kind"] == "solved":
            cs["tag"] = "exhaustive"; cases.append(cs)
    cases += _gen_cases(ctx.rng, 500 if ctx.quick else 4000)
    _run_cases(ctx, cases)
    _post_checks(ctx, _random_images(ctx.rng, 300 if ctx.quick else 5000))
    _batch_checks(ctx, 25 if ctx.quick else 300)


def search(ctx):
    warnings.filterwarnings("ignore")
    cases = [cs for cs in P._exhaustive([(2, 2), (2, 3), (3, 2)]) if cs["kind"] == "solved"] + _gen_cases(ctx.rng, 400 if ctx.quick else 3000)
    for i in range(0, len(cases), 50):
        P._merge(ctx, eval_chunk(cases[i:i + 50], ctx.workdir, 9000, use_model=False, stop_at_first=True))
        if ctx.violations: return
    _post_checks(ctx, _random_images(ctx.rng, 500))
    if ctx.violations: return
    _batch_checks(ctx, 20)


def replay(ctx, rp):
    case = rp.get("case", rp)
    if "post" in case:
        _post_checks(ctx, [case["pixels"]]); return
    if "cases" in case:
        np, R, LM = _mods()
        from maze_dataset import MazeDataset, MazeDatasetConfig
        cases, opt = case["cases"], tuple(case["opt"])
        k, g = len(cases), cases[0]["rows"]
        base = MazeDataset(MazeDatasetConfig(name="b", grid_n=g, n_mazes=k), [P._real_maze(c) for c in cases])
        ds = R.RasterizedMazeDataset.from_base_MazeDataset(base, added_params=dict(remove_isolated_cells=opt[0], extend_pixels=opt[1], endpoints_as_open=opt[2]))
        items = [_expected(c, *opt) for c in cases]
        ctx.case(dict(replay_batch=case.get("idxs"), index=case.get("index")))
        if "index" in case:
            got = np.asarray(ds[case["index"]])
            if P._code_img(got[0]) != items[case["index"]][0] or P._code_img(got[1]) != items[case["index"]][1]:
                ctx.violate(f"RasterizedMazeDataset[{case['index']}] with options {opt} is not the input/target pair of that maze", case)
            return
        idxs = case["idxs"]
        ids = list(range(k)) if idxs is None else idxs
        b = np.asarray(ds.get_batch(idxs))
        got = dict(inputs=[P._code_img(x) for x in b[0]], targets=[P._code_img(x) for x in b[1]])
        if got != dict(inputs=[items[i][0] for i in ids], targets=[items[i][1] for i in ids]):
            ctx.violate(f"get_batch({idxs}) over {k} mazes (options {opt}) does not stack the items in index order", case)
        return
    P._merge(ctx, eval_chunk([case], ctx.workdir, 9500, use_model=True))
