import MazeVerif.Lemmas.PixelsText
/-! # C10 — pixel and ASCII renderings are faithful and invertible

Model: `MZ.Pix` (`Model/Pixels.lean`; lattice_maze.py `_as_pixels_bw`, `as_pixels`, `_from_pixel_grid_bw`,
`_from_pixel_grid_with_positions`, `from_pixels`, `as_ascii`, `from_ascii`, `detect_pixels_type`).
A maze is *good* when its connections join cells of the grid, its endpoints / solution cells lie in the grid and
its solution moves through open connections.  All theorems quantify over every grid size, every connection list,
every kind, every endpoint pair / solution and every flag pair — nothing is bounded.
Only property theorems and their non-vacuity examples live here. -/
namespace MZ.Pix

/-- connections join cells of the grid; endpoints / solution in the grid; solution walks through open connections -/
def Good (m : Maze) : Prop := WF m.rows m.cols m.edges ∧ Valid m ∧ SolPath m

/-- the flag pairs `as_pixels` accepts: everything but `show_solution ∧ ¬show_endpoints` -/
def Accepted (se ss : Bool) : Prop := ¬ (ss = true ∧ se = false)

/-- `m` with its connection list in array order (what the readers return: the same boolean array) -/
def canonMaze : Maze → Maze
  | .lattice r c E => .lattice r c (canonEdges r c E)
  | .targeted r c E s e => .targeted r c (canonEdges r c E) s e
  | .solved r c E s rest => .solved r c (canonEdges r c E) s rest

/-- when the picture determines the maze: endpoints requested and distinct; for a solved maze also the solution
    requested and a shortest path -/
def Recoverable (m : Maze) (se ss : Bool) : Prop :=
  match m with
  | .lattice .. => True
  | .targeted _ _ _ s e => se = true ∧ s ≠ e
  | .solved _ _ E s rest => se = true ∧ ss = true ∧ IsShortest E (s :: rest) ∧ s ≠ (s :: rest).getLast (by simp)

private theorem accepted_of_ok {m : Maze} {se ss : Bool} {img : Img RGB} (h : asPixels m se ss = .ok img) : Accepted se ss := by
  rintro ⟨rfl, rfl⟩
  simp [asPixels] at h

private theorem shows_of_ok {m : Maze} {se ss : Bool} {img : Img RGB} (hv : Valid m) (h : asPixels m se ss = .ok img) :
    Shows img m se ss := by
  obtain ⟨img', h1, h2, h3, h4⟩ := asPixels_spec m se ss hv (accepted_of_ok h)
  rw [h] at h1
  cases h1
  exact ⟨h2, h3, h4⟩

/-! ## the picture -/

/-- the rejected flag pair is the `ValueError` branch, for every maze, in both renderers -/
theorem C10_flag_combo (m : Maze) : asPixels m false true = .error .value ∧ asAscii m false true = .error .value := by
  have h : asPixels m false true = .error .value := by simp [asPixels]
  exact ⟨h, by simp [asAscii, asAsciiGrid, h]⟩

/-- every accepted flag pair renders every good maze (no exception branch is reachable) -/
theorem C10_total (m : Maze) (se ss : Bool) (hg : Good m) (hf : Accepted se ss) :
    (∃ img, asPixels m se ss = .ok img) ∧ (∃ s, asAscii m se ss = .ok s) := by
  obtain ⟨img, h, _⟩ := asPixels_spec m se ss hg.2.1 hf
  obtain ⟨a, ha, _⟩ := asAsciiGrid_spec m se ss hg.2.1 hf
  exact ⟨⟨img, h⟩, ⟨joinLines a.toLists, by simp only [asAscii, ha]⟩⟩

theorem C10_size (m : Maze) (se ss : Bool) (img : Img RGB) (hv : Valid m) (h : asPixels m se ss = .ok img) :
    img.h = 2 * m.rows + 1 ∧ img.w = 2 * m.cols + 1 :=
  ⟨(shows_of_ok hv h).h, (shows_of_ok hv h).w⟩

theorem C10_border_wall (m : Maze) (se ss : Bool) (img : Img RGB) (hg : Good m) (h : asPixels m se ss = .ok img)
    (x y : Nat) (hb : x = 0 ∨ y = 0 ∨ x = 2 * m.rows ∨ y = 2 * m.cols) : img.px x y = cWall := by
  have hs := shows_of_ok hg.2.1 h
  rw [hs.px]
  have := spec_ne_wall_iff m se ss hg.2.1 hg.2.2 hg.1.inArr x y
  rw [bw_border hg.1 hb] at this
  by_cases hc : specPx m se ss x y = cWall
  · exact hc
  · exact absurd (this.1 hc) (by simp)

/-- every cell is an open pixel: never wall, and plain `OPEN` when no marker is requested -/
theorem C10_cell_open (m : Maze) (se ss : Bool) (img : Img RGB) (hg : Good m) (h : asPixels m se ss = .ok img)
    (a : Cell) : img.px (pixOf a).1 (pixOf a).2 ≠ cWall ∧ (se = false → img.px (pixOf a).1 (pixOf a).2 = cOpen) := by
  have hs := shows_of_ok hg.2.1 h
  rw [hs.px]
  refine ⟨(spec_ne_wall_iff m se ss hg.2.1 hg.2.2 hg.1.inArr _ _).2 (bw_cell _ _ _ a), ?_⟩
  intro hse
  have hss : ss = false := by
    cases ss with
    | false => rfl
    | true => exact absurd ⟨rfl, hse⟩ (accepted_of_ok h)
  rcases spec_cases m se ss (pixOf a).1 (pixOf a).2 with h' | ⟨h', _⟩ | ⟨h', _⟩
  · rw [h', basePx_cell]
  · rw [hse] at h'; cases h'
  · rw [hss] at h'; cases h'

/-- the pixel between two lattice neighbours is non-wall exactly when they are connected -/
theorem C10_between_iff_adj (m : Maze) (se ss : Bool) (img : Img RGB) (hg : Good m) (h : asPixels m se ss = .ok img)
    (a b : Cell) (ha : inGrid m.rows m.cols a) (hb : inGrid m.rows m.cols b) (hn : b ∈ nbrs a) :
    img.px (midOf a b).1 (midOf a b).2 ≠ cWall ↔ Adj m.edges a b := by
  have hs := shows_of_ok hg.2.1 h
  rw [hs.px, spec_ne_wall_iff m se ss hg.2.1 hg.2.2 hg.1.inArr]
  exact bw_mid_iff_adj hg.1.inArr ha hb hn

/-- endpoints requested ⇒ `END` on the end cell and `START` on the start cell (the end wins when they coincide);
    endpoints not requested ⇒ no `START`/`END` pixel anywhere; a plain lattice maze never has one -/
theorem C10_endpoints_drawn (m : Maze) (se ss : Bool) (img : Img RGB) (hg : Good m) (h : asPixels m se ss = .ok img) :
    (∀ s e, m.ends = some (s, e) → se = true →
      img.px (pixOf e).1 (pixOf e).2 = cEnd ∧ (s ≠ e → img.px (pixOf s).1 (pixOf s).2 = cStart)) ∧
    ((se = false ∨ m.ends = none) → ∀ x y, img.px x y ≠ cStart ∧ img.px x y ≠ cEnd) := by
  have hs := shows_of_ok hg.2.1 h
  constructor
  · intro s e hends hse
    subst hse
    cases m with
    | lattice r c E => simp [Maze.ends] at hends
    | targeted r c E s' e' =>
      simp only [Maze.ends, Option.some.injEq, Prod.mk.injEq] at hends
      obtain ⟨rfl, rfl⟩ := hends
      refine ⟨by rw [hs.px]; simp [specPx], fun hne => ?_⟩
      have : ¬ ((pixOf s').1, (pixOf s').2) = pixOf e' := fun h' => hne ((pix_eq_iff hg.2.1.1 hg.2.1.2).1 h')
      rw [hs.px]; simp [specPx, this]
    | solved r c E s' rest =>
      simp only [Maze.ends, Option.some.injEq, Prod.mk.injEq] at hends
      obtain ⟨rfl, rfl⟩ := hends
      refine ⟨by rw [hs.px]; simp [specPx], fun hne => ?_⟩
      have : ¬ ((pixOf s').1, (pixOf s').2) = pixOf ((s' :: rest).getLast (by simp)) :=
        fun h' => hne ((pix_eq_iff (hg.2.1.1 s' (by simp)) (getLast_inGrid hg.2.1.1)).1 h')
      rw [hs.px]; simp [specPx, this]
  · intro hor x y
    rw [hs.px]
    rcases spec_cases m se ss x y with h' | ⟨hse, _⟩ | ⟨_, h'⟩
    · rw [h']; rcases basePx_cases m x y with ⟨hb, _⟩ | ⟨hb, _⟩ <;> rw [hb] <;> decide
    · rcases hor with hor | hor
      · rw [hor] at hse; cases hse
      · cases m with
        | lattice r c E => simp only [specPx]; rcases basePx_cases (.lattice r c E) x y with ⟨hb, _⟩ | ⟨hb, _⟩ <;> rw [hb] <;> decide
        | targeted => simp [Maze.ends] at hor
        | solved => simp [Maze.ends] at hor
    · rw [h']; decide

/-- solution requested ⇒ the `PATH` pixels are exactly the solution's cells and in-between pixels, minus the two
    endpoint pixels (drawn on top); not requested, or not a solved maze ⇒ no `PATH` pixel -/
theorem C10_solution_pixels (m : Maze) (se ss : Bool) (img : Img RGB) (hg : Good m) (h : asPixels m se ss = .ok img) :
    (∀ r c E s rest, m = .solved r c E s rest → ss = true → ∀ x y,
      (img.px x y = cPath ↔ ((x, y) ∈ betweenPix (s :: rest) ∨ (x, y) ∈ (s :: rest).map pixOf) ∧
        (x, y) ≠ pixOf ((s :: rest).getLast (by simp)) ∧ (x, y) ≠ pixOf s)) ∧
    ((ss = false ∨ m.kind ≠ .solved) → ∀ x y, img.px x y ≠ cPath) := by
  have hs := shows_of_ok hg.2.1 h
  constructor
  · rintro r c E s rest rfl hss x y
    have hse : se = true := by
      cases se with
      | true => rfl
      | false => exact absurd ⟨hss, rfl⟩ (accepted_of_ok h)
    subst hss; subst hse
    rw [hs.px]
    simp only [specPx, if_true]
    by_cases h1 : (x, y) = pixOf ((s :: rest).getLast (by simp))
    · simp [h1, cEnd, cPath]
    · by_cases h2 : (x, y) = pixOf s
      · simp only [h2] at h1 ⊢; simp [h1, cStart, cPath]
      · by_cases h3 : (x, y) ∈ betweenPix (s :: rest)
        · simp [h1, h2, h3]
        · by_cases h4 : (x, y) ∈ (s :: rest).map pixOf
          · simp only [h1, h2, h3, h4, if_false, if_true]; simp [h1, h2, h4]
          · simp only [h1, h2, h3, h4, if_false]
            rcases basePx_cases (.solved r c E s rest) x y with ⟨hb, _⟩ | ⟨hb, _⟩ <;> rw [hb] <;> simp [cOpen, cWall, cPath]
  · intro hor x y
    rw [hs.px]
    rcases spec_cases m se ss x y with h' | ⟨_, h' | h'⟩ | ⟨hss, _⟩
    · rw [h']; rcases basePx_cases m x y with ⟨hb, _⟩ | ⟨hb, _⟩ <;> rw [hb] <;> decide
    · rw [h']; decide
    · rw [h']; decide
    · rcases hor with hor | hor
      · rw [hor] at hss; cases hss
      · cases m with
        | lattice r c E => simp only [specPx]; rcases basePx_cases (.lattice r c E) x y with ⟨hb, _⟩ | ⟨hb, _⟩ <;> rw [hb] <;> decide
        | targeted r c E s e => exact spec_targeted_ne_path _ _ _ _
        | solved => simp [Maze.kind] at hor

/-- the ASCII drawing is the pixel picture character for character (same size; every character is the one
    `ASCII_PIXEL_PAIRINGS` pairs with the pixel's colour), and the text is its rows joined by newlines -/
theorem C10_ascii_eq_pixels (m : Maze) (se ss : Bool) (hg : Good m) (hf : Accepted se ss) :
    ∃ img a, asPixels m se ss = .ok img ∧ asAsciiGrid m se ss = .ok a ∧ a.h = img.h ∧ a.w = img.w ∧
      (∀ x y, charOf? (img.px x y) = some (a.px x y)) ∧ asAscii m se ss = .ok (joinLines a.toLists) := by
  obtain ⟨img, h1, h2, h3, h4⟩ := asPixels_spec m se ss hg.2.1 hf
  obtain ⟨a, a1, a2, a3, a4⟩ := asAsciiGrid_spec m se ss hg.2.1 hf
  exact ⟨img, a, h1, a1, a2.trans h2.symm, a3.trans h3.symm, fun x y => by rw [h4]; exact a4 x y, by simp only [asAscii, a1]⟩

/-! ## reading back -/

/-- the connection list read back is the same set of array entries (so: the identical boolean array) -/
theorem C10_canon_edges (rows cols : Nat) (E : List Edge) (hE : WF rows cols E) (e : Edge) :
    e ∈ canonEdges rows cols E ↔ e ∈ E := mem_canonEdges hE.inArr e

/-- a shortest path is simple and chordless (the key fact behind the re-ordering walk of `from_pixels`) -/
theorem C10_shortest_simple_chordless (E : List Edge) (p : List Cell) (h : IsShortest E p) : p.Nodup ∧ Chordless E p :=
  ⟨h.nodup, h.chordless⟩

private theorem read_of_shows {m : Maze} {se ss : Bool} {img : Img RGB} (hg : Good m) (hs : Shows img m se ss)
    (hr : Recoverable m se ss) : fromPixels m.kind img = .ok (canonMaze m) := by
  cases m with
  | lattice r c E => exact fromPixels_lattice hs hg.2.1 hg.2.2 hg.1.inArr
  | targeted r c E s e =>
    obtain ⟨rfl, hne⟩ := hr
    exact fromPixels_targeted hs hg.2.1 hg.1.inArr hne
  | solved r c E s rest =>
    obtain ⟨rfl, rfl, hsh, hne⟩ := hr
    have hrest : rest ≠ [] := by rintro rfl; exact hne rfl
    exact fromPixels_solved hs hg.2.1 hg.2.2 hg.1.inArr hsh.nodup hsh.chordless hrest

/-- **pixel round trip**: for every good maze of any kind and every accepted flag pair under which the picture
    determines the maze (endpoints shown and distinct; solved: solution shown and a shortest path), `from_pixels` of the
    same class returns the same kind, size, connection array, start, end and the solution in its original order -/
theorem C10_roundtrip_pixels (m : Maze) (se ss : Bool) (hg : Good m) (hf : Accepted se ss) (hr : Recoverable m se ss) :
    ∃ img, asPixels m se ss = .ok img ∧ fromPixels m.kind img = .ok (canonMaze m) := by
  obtain ⟨img, h1, h2, h3, h4⟩ := asPixels_spec m se ss hg.2.1 hf
  exact ⟨img, h1, read_of_shows hg ⟨h2, h3, h4⟩ hr⟩

/-- reading any picture of a good maze as a plain `LatticeMaze` returns its connection array -/
theorem C10_roundtrip_as_lattice (m : Maze) (se ss : Bool) (hg : Good m) (hf : Accepted se ss) :
    ∃ img, asPixels m se ss = .ok img ∧ fromPixels .lattice img = .ok (.lattice m.rows m.cols (canonEdges m.rows m.cols m.edges)) := by
  obtain ⟨img, h1, h2, h3, h4⟩ := asPixels_spec m se ss hg.2.1 hf
  exact ⟨img, h1, fromPixels_lattice ⟨h2, h3, h4⟩ hg.2.1 hg.2.2 hg.1.inArr⟩

/-- full ASCII round-trip statement, on the text (`"\n".join`, `strip`, `split("\n")`, per-line `strip` included) -/
def C10_roundtrip_ascii_full : Prop :=
  ∀ (m : Maze) (se ss : Bool), Good m → Accepted se ss → Recoverable m se ss →
    ∃ s, asAscii m se ss = .ok s ∧ fromAscii m.kind s = .ok (canonMaze m)

/-- **ASCII round trip on the character grid** (kept as the grid-level half of `C10_roundtrip_ascii`; the text layer —
    join, strip, split, per-line strip — is added by the full theorem below): the character grid of `as_ascii`, mapped
    back to colours by `from_ascii`'s pairing loop and read by `from_pixels`, returns the maze -/
theorem C10_roundtrip_ascii_partial (m : Maze) (se ss : Bool) (hg : Good m) (hf : Accepted se ss) (hr : Recoverable m se ss) :
    ∃ a, asAsciiGrid m se ss = .ok a ∧ asAscii m se ss = .ok (joinLines a.toLists) ∧
      fromAsciiGrid m.kind a = .ok (canonMaze m) := by
  obtain ⟨a, a1, a2, a3, a4⟩ := asAsciiGrid_spec m se ss hg.2.1 hf
  refine ⟨a, a1, by simp only [asAscii, a1], ?_⟩
  have hs : Shows (asciiToPixels a) m se ss :=
    ⟨(asciiToPixels_dims a).1.trans a2, (asciiToPixels_dims a).2.trans a3, asciiToPixels_spec m se ss a a4⟩
  exact read_of_shows hg hs hr

/-- every row of the drawing starts and ends with `#`, there is at least one row and one column (`2·rows+1`,
    `2·cols+1` — also for `rows = 0` or `cols = 0`, where the drawing is a column / row of `#`), and no character is a
    newline: the facts that make `strip`, `split("\n")` and the per-line `strip` of `from_ascii` the identity -/
theorem C10_ascii_framed (m : Maze) (se ss : Bool) (a : Img Char) (hg : Good m) (h : asAsciiGrid m se ss = .ok a) :
    Framed a := by
  have hf : Accepted se ss := by
    rintro ⟨rfl, rfl⟩
    simp [asAsciiGrid, asPixels] at h
  obtain ⟨a', a1, a2, a3, a4⟩ := asAsciiGrid_spec m se ss hg.2.1 hf
  rw [h] at a1
  cases a1
  exact framed_of_spec m se ss hg.1 hg.2.1 hg.2.2 a a2 a3 a4

/-- **ASCII round trip, on the text**: for every good maze of any kind and size (degenerate `rows = 0` / `cols = 0`
    included — no extra hypothesis is needed) and every accepted flag pair under which the picture determines the maze,
    `from_ascii` (`strip()`, `split("\n")`, per-line `strip()`, `np.array`, pairing loop, `from_pixels`) of the string
    `as_ascii` returns (`"\n".join` of the rows) is the maze: same kind, size, connection array, start, end, solution -/
theorem C10_roundtrip_ascii : C10_roundtrip_ascii_full := by
  intro m se ss hg hf hr
  obtain ⟨a, a1, a2, a3⟩ := C10_roundtrip_ascii_partial m se ss hg hf hr
  exact ⟨joinLines a.toLists, a2, by rw [fromAscii_joinLines m.kind (C10_ascii_framed m se ss a hg a1)]; exact a3⟩

/-! ## non-vacuity: a 2×2 maze (three connections, one wall), its 4-cell shortest solution, all stages evaluated -/
private def exE : List Edge := [(0, 0, 0), (0, 0, 1), (1, 0, 0)]
private def exM : Maze := .solved 2 2 exE (1, 0) [(0, 0), (0, 1), (1, 1)]

example : (match asPixels exM true true with | .ok g => g.toLists | .error _ => []) =
    [[cWall, cWall, cWall, cWall, cWall], [cWall, cPath, cPath, cPath, cWall], [cWall, cPath, cWall, cPath, cWall],
     [cWall, cStart, cWall, cEnd, cWall], [cWall, cWall, cWall, cWall, cWall]] := by decide
example : (match asAscii exM true true with | .ok s => String.ofList s | .error _ => "") = "#####\n#XXX#\n#X#X#\n#S#E#\n#####" := by decide
example : (match asPixels exM true true with | .ok g => fromPixels .solved g | .error e => .error e) = .ok exM := by decide
example : (match asAscii exM true true with | .ok s => fromAscii .solved s | .error e => .error e) = .ok exM := by decide
/-- non-vacuity of `C10_roundtrip_ascii` / `C10_ascii_framed`: the text layer is exercised on a 5-line string whose
    pieces are evaluated one by one (strip = id, split gives the 5 rows, per-line strip = id) -/
example : (match asAscii exM true true with | .ok s => (splitLines (strip s)).map strip | .error _ => []) =
    ["#####".toList, "#XXX#".toList, "#X#X#".toList, "#S#E#".toList, "#####".toList] := by decide
/-- the text layer is not trivially the identity: surrounding blanks / newlines are removed, inner blanks are kept -/
example : (splitLines (strip " \n### \n# #\n###\n\n".toList)).map strip = ["###".toList, "# #".toList, "###".toList] := by decide
/-- degenerate sizes are covered: a `0×0` maze is the text `#`, a `0×1` maze is `###`, and both read back -/
example : asAscii (.lattice 0 0 []) true true = .ok "#".toList ∧ fromAscii .lattice "#".toList = .ok (.lattice 0 0 []) ∧
    asAscii (.lattice 0 1 []) true true = .ok "###".toList ∧ fromAscii .lattice "###".toList = .ok (.lattice 0 1 []) := by decide
example : asPixels exM false true = .error .value := (C10_flag_combo exM).1
private theorem exWF : WF 2 2 exE := by
  intro e he
  simp only [exE, List.mem_cons, List.not_mem_nil, or_false] at he
  rcases he with rfl | rfl | rfl <;> simp
example : Good exM := by
  refine ⟨exWF, ⟨?_, by simp [Chain, nbrs]⟩, by simp [SolPath, exM, PathIn, Adj, exE]⟩
  intro x hx
  simp only [List.mem_cons, List.not_mem_nil, or_false] at hx
  rcases hx with rfl | rfl | rfl | rfl <;> simp [inGrid]
example : Good (.targeted 2 2 exE (0, 1) (1, 0)) ∧ Recoverable (.targeted 2 2 exE (0, 1) (1, 0)) true false :=
  ⟨⟨exWF, ⟨by simp [inGrid], by simp [inGrid]⟩, trivial⟩, rfl, by decide⟩
/-- `C10_roundtrip_ascii` instantiated: all three hypotheses hold for a targeted 2×2 maze, and the conclusion is the
    concrete text round trip -/
example : ∃ s, asAscii (.targeted 2 2 exE (0, 1) (1, 0)) true false = .ok s ∧
    fromAscii .targeted s = .ok (canonMaze (.targeted 2 2 exE (0, 1) (1, 0))) :=
  C10_roundtrip_ascii (.targeted 2 2 exE (0, 1) (1, 0)) true false
    ⟨exWF, ⟨by simp [inGrid], by simp [inGrid]⟩, trivial⟩ (by simp [Accepted]) ⟨rfl, by decide⟩
example : (match asAscii (.targeted 2 2 exE (0, 1) (1, 0)) true false with | .ok s => String.ofList s | .error _ => "") =
    "#####\n#  S#\n# # #\n#E# #\n#####" := by decide
/-- the hypothesis `IsShortest` is satisfiable by a non-trivial path -/
example : IsShortest [(1, 0, 0)] [(0, 0), (0, 1)] := by
  refine ⟨⟨Or.inr (Or.inr (Or.inl ⟨rfl, by simp⟩)), trivial⟩, ?_⟩
  intro q _ hh hl
  match q, hh, hl with
  | [], hh, _ => simp at hh
  | [a], hh, hl => simp at hh hl; rw [hh] at hl; simp at hl
  | _ :: _ :: _, _, _ => simp

end MZ.Pix
