import MazeVerif.Model.Grid
/-! Structured tokens and the coordinate tokenizers of `MazeTokenizerModular`
    (maze_tokenizer.py:729-790 `CoordTokenizers.UT/CTT.to_tokens`), plus the generic parsing combinators
    of the independent decoder. Core Lean only. -/
namespace MZ.Tok

inductive Dir | north | south | east | west
deriving DecidableEq, Repr

inductive Rel | forward | backward | left | right | stay
deriving DecidableEq, Repr

/-- structured token; `Tok.str` (Model/TokVocab.lean) renders the vocabulary string -/
inductive Tok
  | lp | comma | rp                 -- VOCAB.COORD_PRE "(" , COORD_INTRA ",", COORD_POST ")"
  | num (n : Nat)                   -- `str(coord[k])` (the CTT_n block of the vocabulary)
  | ut (i j : Nat)                  -- "(i,j)" (the UT block)
  | conn | wall                     -- VOCAB.CONNECTOR "<-->", VOCAB.ADJLIST_WALL "<XX>"
  | endl                            -- VOCAB.ADJACENCY_ENDLINE ";"
  | card (d : Dir)                  -- VOCAB.PATH_NORTH …
  | rel (r : Rel)                   -- VOCAB.PATH_FORWARD …
  | dist (d : Nat)                  -- getattr(VOCAB, f"I_{d:03}")
  | pathPre | pathIntra | pathPost  -- "STEP" ":" "THEN"
  | targetPost                      -- "||"
  | adjStart | adjEnd | originStart | originEnd | targetStart | targetEnd | pathStart | pathEnd
deriving DecidableEq, Repr

/-- the eight region delimiters of `_sequence_tokens` -/
def Tok.isDelim : Tok → Bool
  | .adjStart | .adjEnd | .originStart | .originEnd | .targetStart | .targetEnd | .pathStart | .pathEnd => true
  | _ => false

/-- a maze coordinate as it is tokenized (row, col); in-grid coordinates are naturals -/
abbrev C := Nat × Nat

/-- `CoordTokenizers`: `UT()` or `CTT(pre, intra, post)` — 9 configurations -/
inductive CoordTok
  | ut
  | ctt (pre intra post : Bool)
deriving DecidableEq, Repr

/-- `*empty_sequence_if_attr_false([t], self, attr)` -/
def opt (b : Bool) (t : Tok) : List Tok := if b then [t] else []

/-- `coord_tokenizer.to_tokens(coord)` (maze_tokenizer.py:765-790) -/
def coordToks : CoordTok → C → List Tok
  | .ut, c => [.ut c.1 c.2]
  | .ctt pre intra post, c => opt pre .lp ++ (.num c.1 :: (opt intra .comma ++ (.num c.2 :: opt post .rp)))

/-! ## decoder combinators (independent of the encoder) -/

/-- consume a delimiter that must be present iff `b` -/
def eat (b : Bool) (t : Tok) (ts : List Tok) : Option (List Tok) :=
  if b then
    match ts with
    | x :: xs => if x = t then some xs else none
    | [] => none
  else some ts

def parseCoord (ct : CoordTok) (ts : List Tok) : Option (C × List Tok) :=
  match ct with
  | .ut =>
    match ts with
    | .ut i j :: rest => some ((i, j), rest)
    | _ => none
  | .ctt pre intra post =>
    match eat pre .lp ts with
    | some (.num a :: ts) =>
      match eat intra .comma ts with
      | some (.num b :: ts) =>
        match eat post .rp ts with
        | some ts => some ((a, b), ts)
        | none => none
      | _ => none
    | _ => none

/-- repeat parser `p` until the next token is `stop` (which is not consumed); `fuel` bounds the number of items -/
def parseMany {α} (stop : Tok) (p : List Tok → Option (α × List Tok)) : Nat → List Tok → Option (List α × List Tok)
  | 0, _ => none
  | fuel + 1, ts =>
    match ts with
    | [] => none
    | t :: rest =>
      if t = stop then some ([], t :: rest)
      else
        match p (t :: rest) with
        | none => none
        | some (a, ts') =>
          match parseMany stop p fuel ts' with
          | none => none
          | some (as, r) => some (a :: as, r)

end MZ.Tok
