import MazeVerif.Lemmas.LegacyTokRound
import MazeVerif.Lemmas.TokPrompt
import MazeVerif.Lemmas.TokSel
import MazeVerif.Model.TokVocab
import MazeVerif.Generated.TokenizerTypes
/-! # Link between the two models of `MazeTokenizerModular.from_legacy(mode).to_tokens(maze)`

* `MZ.LT.modularTokens` (Model/LegacyTok.lean) — the specialised hand-written model used by C07;
* `MZ.Tok.toTokens cfg` (Model/Tok*.lean) — the general model of C06, instantiated at the configuration `fromLegacyCfg mode`.

The configuration is not chosen by hand: `cfgOfVal` reads a `MZ.Tok.TokCfg` off the run-time value (`MZ.AI.Val`) that the
translator obtained by *calling* `MazeTokenizerModular.from_legacy(mode)` on the source (`MZ.Gen.Tok.fromLegacy`, re-emitted on every
run), and `fromLegacyCfg_generated` shows that it is `fromLegacyCfg mode` for the three modes.

Representation differences, bridged by explicit conversions:
* mazes: `LT.LMaze` stores `connection_list` entries as `Nat × Nat × Nat`, `Tok.Maze` as `Nat × Int × Int` → `toMaze`, `toMazeIn`;
* emission order: the SAME type on both sides, `List ((Nat × Nat) × (Nat × Nat))` (leading coord, trailing coord) — no conversion;
  the legality predicates differ (`LT.ValidAdj` set-wise, `Tok.ValidOrder` as a permutation): `validAdj_of_validOrder`;
* tokens: `Tok.Tok` rendered by `Tok.str : Tok → String`, `LT` uses `List Char` → `render ts = ts.map (·.str.toList)`. -/
namespace MZ.LT
open MZ.Gen.LT MZ.AI

/-! ## the configuration `from_legacy` builds -/

/-- `CoordTokenizers.UT()` / `CoordTokenizers.CTT()` (defaults `pre = intra = post = True`) -/
def cvtCt : CoordTok → Tok.CoordTok
  | .ut => .ut
  | .ctt => .ctt true true true

/-- `AdjListCoord()`: `post=True, shuffle_d0=True, Ungrouped(connection_token_ordinal=1), ConnectionEdges(walls=False), RandomCoords()` -/
def legacyAdjCfg : Tok.AdjCfg := ⟨false, true, true, .o1, .conn false, .random⟩

/-- `StepSequence()`: `Singles(), (Coord(),), pre=False, intra=False, post=False` -/
def legacyPathCfg : Tok.PathCfg := ⟨false, [.coord], false, false, false⟩

/-- the C06 configuration of `MazeTokenizerModular.from_legacy(mode)` (maze_tokenizer.py:2090-2104 + the dataclass defaults) -/
def fromLegacyCfg (mode : Mode) : Tok.TokCfg := ⟨cvtCt mode.coordTok, legacyAdjCfg, .aotp false, legacyPathCfg⟩

/-- `TokenizationMode.<name>` -/
def Mode.pyName : Mode → String
  | .utRasterized => "AOTP_UT_rasterized"
  | .utUniform => "AOTP_UT_uniform"
  | .cttIndexed => "AOTP_CTT_indexed"

/-! ### reading a `TokCfg` off a run-time tokenizer value (fields located through the generated `fieldNames`) -/

def fld (cls name : String) (fs : List Val) : Option Val := fs[(MZ.Gen.Tok.fieldNames cls).idxOf name]?

def boolOf : Option Val → Option Bool
  | some (.b v) => some v
  | _ => none

def ctOfVal : Val → Option Tok.CoordTok
  | .obj "CoordTokenizers.UT" _ => some .ut
  | .obj "CoordTokenizers.CTT" fs =>
    match boolOf (fld "CoordTokenizers.CTT" "pre" fs), boolOf (fld "CoordTokenizers.CTT" "intra" fs),
      boolOf (fld "CoordTokenizers.CTT" "post" fs) with
    | some a, some b, some c => some (.ctt a b c)
    | _, _, _ => none
  | _ => none

def ordinalOfVal : Val → Option Tok.Ordinal
  | .obj "EdgeGroupings.Ungrouped" fs =>
    match fld "EdgeGroupings.Ungrouped" "connection_token_ordinal" fs with
    | some (.lit (.int 0)) => some .o0
    | some (.lit (.int 1)) => some .o1
    | some (.lit (.int 2)) => some .o2
    | _ => none
  | _ => none

def subsetOfVal : Val → Option Tok.Subset
  | .obj "EdgeSubsets.AllLatticeEdges" _ => some .all
  | .obj "EdgeSubsets.ConnectionEdges" fs => (boolOf (fld "EdgeSubsets.ConnectionEdges" "walls" fs)).map .conn
  | _ => none

def permuterOfVal : Val → Option Tok.Permuter
  | .obj "EdgePermuters.SortedCoords" _ => some .sorted
  | .obj "EdgePermuters.RandomCoords" _ => some .random
  | .obj "EdgePermuters.BothCoords" _ => some .both
  | _ => none

def adjOfFields (cls : String) (cardinal : Bool) (fs : List Val) : Option Tok.AdjCfg :=
  match boolOf (fld cls "pre" fs), boolOf (fld cls "post" fs), boolOf (fld cls "shuffle_d0" fs),
    (fld cls "edge_grouping" fs).bind ordinalOfVal, (fld cls "edge_subset" fs).bind subsetOfVal,
    (fld cls "edge_permuter" fs).bind permuterOfVal with
  | some false, some post, some sh, some o, some s, some p => some ⟨cardinal, post, sh, o, s, p⟩
  | _, _, _, _, _, _ => none

def adjOfVal : Val → Option Tok.AdjCfg
  | .obj "AdjListTokenizers.AdjListCoord" fs => adjOfFields "AdjListTokenizers.AdjListCoord" false fs
  | .obj "AdjListTokenizers.AdjListCardinal" fs => adjOfFields "AdjListTokenizers.AdjListCardinal" true fs
  | _ => none

def stepOfVal : Val → Option Tok.StepTk
  | .obj "StepTokenizers.Coord" _ => some .coord
  | .obj "StepTokenizers.Cardinal" _ => some .cardinal
  | .obj "StepTokenizers.Relative" _ => some .relative
  | .obj "StepTokenizers.Distance" _ => some .distance
  | _ => none

def forksOfVal : Val → Option Bool
  | .obj "StepSizes.Singles" _ => some false
  | .obj "StepSizes.Forks" _ => some true
  | _ => none

def pathOfVal : Val → Option Tok.PathCfg
  | .obj "PathTokenizers.StepSequence" fs =>
    match (fld "PathTokenizers.StepSequence" "step_size" fs).bind forksOfVal,
      fld "PathTokenizers.StepSequence" "step_tokenizers" fs,
      boolOf (fld "PathTokenizers.StepSequence" "pre" fs), boolOf (fld "PathTokenizers.StepSequence" "intra" fs),
      boolOf (fld "PathTokenizers.StepSequence" "post" fs) with
    | some f, some (.tup ss), some a, some b, some c => (ss.mapM stepOfVal).map fun st => ⟨f, st, a, b, c⟩
    | _, _, _, _, _ => none
  | _ => none

def targetPostOfVal : Val → Option Bool
  | .obj "TargetTokenizers.Unlabeled" fs => boolOf (fld "TargetTokenizers.Unlabeled" "post" fs)
  | _ => none

/-- the `TokCfg` of a `MazeTokenizerModular` run-time value (`none` outside the space the C06 model covers) -/
def cfgOfVal : Val → Option Tok.TokCfg
  | .obj "MazeTokenizerModular" [.obj "PromptSequencers.AOTP" fs] =>
    match (fld "PromptSequencers.AOTP" "coord_tokenizer" fs).bind ctOfVal,
      (fld "PromptSequencers.AOTP" "adj_list_tokenizer" fs).bind adjOfVal,
      (fld "PromptSequencers.AOTP" "target_tokenizer" fs).bind targetPostOfVal,
      (fld "PromptSequencers.AOTP" "path_tokenizer" fs).bind pathOfVal with
    | some ct, some a, some tp, some p => some ⟨ct, a, .aotp tp, p⟩
    | _, _, _, _ => none
  | .obj "MazeTokenizerModular" [.obj "PromptSequencers.AOP" fs] =>
    match (fld "PromptSequencers.AOP" "coord_tokenizer" fs).bind ctOfVal,
      (fld "PromptSequencers.AOP" "adj_list_tokenizer" fs).bind adjOfVal,
      (fld "PromptSequencers.AOP" "path_tokenizer" fs).bind pathOfVal with
    | some ct, some a, some p => some ⟨ct, a, .aop, p⟩
    | _, _, _ => none
  | _ => none

/-- **`fromLegacyCfg` is what the source builds**: for each of the three modes, the value obtained by calling
    `MazeTokenizerModular.from_legacy(TokenizationMode.<mode>)` (generated table) reads as `fromLegacyCfg mode` -/
theorem fromLegacyCfg_generated (mode : Mode) :
    (MZ.Gen.Tok.fromLegacy.lookup mode.pyName).bind cfgOfVal = some (fromLegacyCfg mode) := by
  cases mode <;> decide +kernel

/-! ## conversions -/

/-- the same `connection_list`, entries as `Nat × Int × Int` -/
def toMaze (m : LMaze) : Tok.Maze := ⟨m.rows, m.cols, m.edges.map fun e => (e.1, (e.2.1 : Int), (e.2.2 : Int))⟩

def toMazeIn : AnyMaze → Tok.MazeIn
  | .lattice m => .plain (toMaze m)
  | .targeted m s e => .targeted (toMaze m) s e
  | .solved m s e sol => .solved (toMaze m) s e sol

theorem toMazeIn_maze (mz : AnyMaze) : (toMazeIn mz).maze = toMaze mz.base := by cases mz <;> rfl

/-- structured tokens → the strings the tokenizer emits, as character lists -/
def render (ts : List Tok.Tok) : List Str := ts.map fun t => t.str.toList

theorem render_append (a b : List Tok.Tok) : render (a ++ b) = render a ++ render b := by simp [render]
theorem render_cons (a : Tok.Tok) (b : List Tok.Tok) : render (a :: b) = a.str.toList :: render b := rfl
theorem render_nil : render [] = [] := rfl

theorem conn_toMaze (m : LMaze) (d x y : Nat) : (toMaze m).conn d x y = true ↔ (d, x, y) ∈ m.edges := by
  rw [Tok.conn_iff]
  simp only [toMaze, List.mem_map]
  constructor
  · rintro ⟨⟨d', x', y'⟩, he, h⟩
    simp only [Prod.mk.injEq, Int.natCast_inj] at h
    obtain ⟨rfl, rfl, rfl⟩ := h
    exact he
  · intro h; exact ⟨(d, x, y), h, rfl⟩

/-! ## legality of the order: every listed pair is a connection -/

theorem isConn_flip (m : Tok.Maze) (e : Tok.OE) : Tok.isConn m (Tok.flipE e) = Tok.isConn m e := by
  simp only [Tok.isConn, Tok.flipE, Nat.min_comm, Nat.max_comm]

theorem pairOfEdge_eq_endsOf (e : NEdge) : pairOfEdge e = Tok.endsOf e := rfl

theorem isConn_endsOf (m : Tok.Maze) {d x y : Nat} (hd : d = 0 ∨ d = 1) : Tok.isConn m (Tok.endsOf (d, x, y)) = m.conn d x y := by
  rcases hd with rfl | rfl
  · have e1 : min x (x + 1) = x := by omega
    have e2 : ¬ (max x (x + 1) - x = 0) := by omega
    simp [Tok.isConn, Tok.endsOf, e1]
  · have e1 : min y (y + 1) = y := by omega
    simp [Tok.isConn, Tok.endsOf, e1]

/-- LT's legality (`ValidAdj`, with `connection_list` dims 0/1) makes every listed pair a connection of the converted maze -/
theorem isConn_of_validAdj {m : LMaze} {adj : List (NCell × NCell)} (hd : ∀ e ∈ m.edges, e.1 = 0 ∨ e.1 = 1)
    (hv : ValidAdj m adj) : ∀ p ∈ adj, Tok.isConn (toMaze m) p = true := by
  intro p hp
  obtain ⟨e, he, hpe⟩ := hv.1 p hp
  obtain ⟨d, x, y⟩ := e
  have h1 : Tok.isConn (toMaze m) (Tok.endsOf (d, x, y)) = true := by
    rw [isConn_endsOf _ (hd _ he)]; exact (conn_toMaze m d x y).2 he
  rcases hpe with rfl | rfl
  · exact h1
  · have : swapPair (pairOfEdge (d, x, y)) = Tok.flipE (Tok.endsOf (d, x, y)) := rfl
    rw [this, isConn_flip]; exact h1

theorem perm_of_validOrder_random {es order : List Tok.OE} (h : Tok.ValidOrder .random true es order) :
    (order.map Tok.normE).Perm es := by
  simpa [Tok.ValidOrder] using h

/-- C06's legality for the legacy configuration (`RandomCoords`, `shuffle_d0`, `ConnectionEdges(walls=False)`) makes every
    listed pair a connection -/
theorem isConn_of_validOrder {m : Tok.Maze} {order : List Tok.OE}
    (hv : Tok.ValidOrder .random true (Tok.connEdges m false) order) : ∀ p ∈ order, Tok.isConn m p = true := by
  intro p hp
  have hm : Tok.normE p ∈ Tok.connEdges m false := (perm_of_validOrder_random hv).mem_iff.1 (List.mem_map_of_mem hp)
  obtain ⟨d, x, y, hd, _, _, hc, hn⟩ := Tok.mem_connEdges.1 hm
  have hc' : m.conn d x y = true := by simpa [Tok.connArr] using hc
  have h1 : Tok.isConn m (Tok.normE p) = true := by
    rw [hn, isConn_endsOf _ (by omega)]; exact hc'
  rcases Tok.normE_cases p with h | h
  · rwa [h] at h1
  · rwa [h, isConn_flip] at h1

/-- **the two legality predicates**: on a well-formed `connection_list`, a C06-legal order for the legacy configuration is an
    LT-legal adjacency listing of the same maze (the converse needs duplicate-freeness: `ValidAdj` is set-wise) -/
theorem validAdj_of_validOrder {m : LMaze} {order : List (NCell × NCell)} (hwf : m.WF)
    (hv : Tok.ValidOrder .random true (Tok.connEdges (toMaze m) false) order) : ValidAdj m order := by
  have hperm := perm_of_validOrder_random hv
  constructor
  · intro p hp
    have hm : Tok.normE p ∈ Tok.connEdges (toMaze m) false := hperm.mem_iff.1 (List.mem_map_of_mem hp)
    obtain ⟨d, x, y, _, _, _, hc, hn⟩ := Tok.mem_connEdges.1 hm
    have hc' : (toMaze m).conn d x y = true := by simpa [Tok.connArr] using hc
    refine ⟨(d, x, y), (conn_toMaze m d x y).1 hc', ?_⟩
    rw [pairOfEdge_eq_endsOf, ← hn]
    rcases Tok.normE_cases p with h | h
    · exact Or.inl h.symm
    · right
      show p = Tok.flipE (Tok.normE p)
      rw [h, Tok.flipE_flipE]
  · intro e he
    obtain ⟨hd, hr, hc⟩ := hwf e he
    obtain ⟨d, x, y⟩ := e
    have hmem : Tok.endsOf (d, x, y) ∈ Tok.connEdges (toMaze m) false := by
      refine Tok.mem_connEdges.2 ⟨d, x, y, ?_, ?_, ?_, ?_, rfl⟩
      · simp only at hd; omega
      · simp only [pairOfEdge] at hr; simp only [toMaze]; omega
      · simp only [pairOfEdge] at hc; simp only [toMaze]; omega
      · simp only [Tok.connArr, Bool.false_eq_true, if_false]; exact (conn_toMaze m d x y).2 he
    obtain ⟨p, hp, hpn⟩ := List.mem_map.1 (hperm.mem_iff.2 hmem)
    refine ⟨p, hp, ?_⟩
    rw [pairOfEdge_eq_endsOf, ← hpn]
    rcases Tok.normE_cases p with h | h
    · exact Or.inl h.symm
    · right
      show p = Tok.flipE (Tok.normE p)
      rw [h, Tok.flipE_flipE]

/-! ## rendering of the pieces -/

theorem toList_natRepr (n : Nat) : (toString n).toList = showNat n := by
  show (Nat.repr n).toList = _
  rw [Nat.toList_repr]; rfl

theorem render_coordToks (ct : CoordTok) (c : NCell) : render (Tok.coordToks (cvtCt ct) c) = coordToks ct c := by
  cases ct with
  | ut =>
    simp only [cvtCt, Tok.coordToks, render, List.map_cons, List.map_nil, coordToks, Tok.Tok.str]
    congr 1
    simp only [String.toList_append, toList_natRepr]
    have h1 : "(".toList = vcCOORD_PRE := by decide
    have h2 : ",".toList = vcCOORD_INTRA := by decide
    have h3 : ")".toList = vcCOORD_POST := by decide
    rw [h1, h2, h3]
  | ctt =>
    have h1 : MZ.Gen.tokCoordPre.toList = vcCOORD_PRE := by decide
    have h2 : MZ.Gen.tokCoordIntra.toList = vcCOORD_INTRA := by decide
    have h3 : MZ.Gen.tokCoordPost.toList = vcCOORD_POST := by decide
    simp only [cvtCt, Tok.coordToks, Tok.opt, if_true, render, List.map_cons, List.map_nil, coordToks, Tok.Tok.str,
      List.cons_append, List.nil_append, toList_natRepr, h1, h2, h3]

theorem str_conn : Tok.Tok.conn.str.toList = spCONNECTOR := by decide
theorem str_endl : Tok.Tok.endl.str.toList = spADJACENCY_ENDLINE := by decide
theorem str_adjStart : Tok.Tok.adjStart.str.toList = spADJLIST_START := by decide
theorem str_adjEnd : Tok.Tok.adjEnd.str.toList = spADJLIST_END := by decide
theorem str_originStart : Tok.Tok.originStart.str.toList = spORIGIN_START := by decide
theorem str_originEnd : Tok.Tok.originEnd.str.toList = spORIGIN_END := by decide
theorem str_targetStart : Tok.Tok.targetStart.str.toList = spTARGET_START := by decide
theorem str_targetEnd : Tok.Tok.targetEnd.str.toList = spTARGET_END := by decide
theorem str_pathStart : Tok.Tok.pathStart.str.toList = spPATH_START := by decide
theorem str_pathEnd : Tok.Tok.pathEnd.str.toList = spPATH_END := by decide

/-! ### adjacency region -/

theorem edgeToks_legacy (ct : Tok.CoordTok) (m : Tok.Maze) (e : Tok.OE) (h : Tok.isConn m e = true) :
    Tok.edgeToks legacyAdjCfg ct m e = some (Tok.coordToks ct e.1 ++ [Tok.Tok.conn] ++ Tok.coordToks ct e.2 ++ [Tok.Tok.endl]) := by
  simp [Tok.edgeToks, Tok.trailToks, legacyAdjCfg, h, Tok.connTok, Tok.opt]

theorem adjToks_legacy (ct : Tok.CoordTok) (m : Tok.Maze) : ∀ (order : List Tok.OE), (∀ e ∈ order, Tok.isConn m e = true) →
    Tok.adjToks legacyAdjCfg ct m order =
      some (order.flatMap fun e => Tok.coordToks ct e.1 ++ [Tok.Tok.conn] ++ Tok.coordToks ct e.2 ++ [Tok.Tok.endl])
  | [], _ => rfl
  | e :: es, h => by
    have h1 := edgeToks_legacy ct m e (h e (by simp))
    have h2 := adjToks_legacy ct m es (fun e' he' => h e' (by simp [he']))
    simp only [Tok.adjToks, h1, h2, List.flatMap_cons]

theorem render_adjRegion (ct : CoordTok) (order : List (NCell × NCell)) :
    render (order.flatMap fun e => Tok.coordToks (cvtCt ct) e.1 ++ [Tok.Tok.conn] ++ Tok.coordToks (cvtCt ct) e.2 ++ [Tok.Tok.endl])
      = adjRegion ct order := by
  induction order with
  | nil => rfl
  | cons e es ih =>
    simp only [List.flatMap_cons, render_append, ih, adjRegion, edgeToks, render_coordToks, render_cons, render_nil, str_conn, str_endl]

/-! ### path region -/

theorem zip_range' : ∀ (n k : Nat), (List.range' k (n + 1)).zip (List.range' (k + 1) n) = (List.range' k n).map fun i => (i, i + 1)
  | 0, k => by simp
  | n + 1, k => by
    have h2 : List.range' (k + 1) (n + 1) = (k + 1) :: List.range' (k + 1 + 1) n := List.range'_succ
    have h3 : (List.range' k (n + 1 + 1)).zip (List.range' (k + 1) (n + 1)) =
        (k :: List.range' (k + 1) (n + 1)).zip ((k + 1) :: List.range' (k + 1 + 1) n) := by
      rw [← h2, ← List.range'_succ]
    rw [h3, List.zip_cons_cons, zip_range' n (k + 1), List.range'_succ (s := k) (n := n)]
    rfl

theorem idxPairs_range (n : Nat) : Tok.idxPairs (List.range (n + 1)) = (List.range' 0 n).map fun i => (i, i + 1) := by
  unfold Tok.idxPairs
  rw [List.range_eq_range']
  have : (List.range' 0 (n + 1)).tail = List.range' 1 n := by rw [List.range'_succ]; rfl
  rw [this]
  exact zip_range' n 0

theorem allSteps_legacy : ∀ (cs pre : List Tok.C) (c : Tok.C),
    Tok.allSteps legacyPathCfg (pre ++ c :: cs) ((List.range' pre.length cs.length).map fun i => (i, i + 1)) =
      some (cs.map fun x => [Tok.StepVal.coord x])
  | [], _, _ => rfl
  | d :: ds, pre, c => by
    have ih := allSteps_legacy ds (pre ++ [c]) d
    have hl : (pre ++ [c]).length = pre.length + 1 := by simp
    have he : pre ++ [c] ++ d :: ds = pre ++ c :: d :: ds := by simp
    rw [hl, he] at ih
    have hg : (pre ++ c :: d :: ds)[pre.length + 1]? = some d := by
      rw [List.getElem?_append_right (by omega)]
      simp
    simp only [List.length_cons, List.range'_succ, List.map_cons, Tok.allSteps, legacyPathCfg, Tok.stepVals, Tok.stepVal, hg,
      Option.map_some]
    simp only [legacyPathCfg] at ih
    rw [ih]

theorem pathToks_legacy_nil (ct : Tok.CoordTok) (m : Tok.Maze) : Tok.pathToks legacyPathCfg ct m [] = none := by
  simp [Tok.pathToks, Tok.pathInfo, legacyPathCfg]

theorem flatten_steps (ct : Tok.CoordTok) : ∀ cs : List Tok.C,
    ((cs.map fun x => [Tok.StepVal.coord x]).map (Tok.stepToksOf legacyPathCfg ct)).flatten = cs.flatMap (Tok.coordToks ct)
  | [] => rfl
  | c :: cs => by
    simp only [List.map_cons, List.flatten_cons, List.flatMap_cons, flatten_steps ct cs]
    simp [Tok.stepToksOf, Tok.bodyToks, Tok.valToks, Tok.opt, legacyPathCfg]

theorem pathToks_legacy_cons (ct : Tok.CoordTok) (m : Tok.Maze) (c : Tok.C) (cs : List Tok.C) :
    Tok.pathToks legacyPathCfg ct m (c :: cs) = some (Tok.coordToks ct c ++ cs.flatMap (Tok.coordToks ct)) := by
  have hs : Tok.stepIdxs legacyPathCfg.forks m (c :: cs) = List.range (cs.length + 1) := by
    simp [Tok.stepIdxs, legacyPathCfg]
  have ha := allSteps_legacy cs [] c
  simp only [List.length_nil, List.nil_append] at ha
  have hm : Tok.StepTk.coord ∈ legacyPathCfg.steps := by simp [legacyPathCfg]
  simp only [Tok.pathToks, Tok.pathInfo, hm, if_true, hs, idxPairs_range, ha, List.getElem?_cons_zero, Option.map_some,
    Tok.pathInfoToks, Tok.leadToks, flatten_steps]
  simp [Tok.opt, legacyPathCfg]

/-! ## whole sequence: the C06 model at `fromLegacyCfg mode` emits exactly the legacy tokens -/

theorem cfg_ct (mode : Mode) : (fromLegacyCfg mode).ct = cvtCt mode.coordTok := rfl
theorem cfg_adj (mode : Mode) : (fromLegacyCfg mode).adj = legacyAdjCfg := rfl
theorem cfg_path (mode : Mode) : (fromLegacyCfg mode).path = legacyPathCfg := rfl
theorem cfg_prompt (mode : Mode) : (fromLegacyCfg mode).prompt = .aotp false := rfl

theorem render_targetToks (ct : CoordTok) (e : NCell) : render (Tok.targetToks (.aotp false) (cvtCt ct) e) = coordToks ct e := by
  simp [Tok.targetToks, Tok.opt, render_coordToks]

/-- adjacency region, in isolation -/
theorem adj_region_agrees (mode : Mode) (m : LMaze) (order : List (NCell × NCell))
    (hconn : ∀ e ∈ order, Tok.isConn (toMaze m) e = true) :
    (Tok.adjToks (fromLegacyCfg mode).adj (fromLegacyCfg mode).ct (toMaze m) order).map render =
      some (adjRegion (fromLegacy mode) order) := by
  rw [cfg_adj, cfg_ct, adjToks_legacy _ _ _ hconn, Option.map_some, render_adjRegion]; rfl

/-- origin region, in isolation -/
theorem origin_region_agrees (mode : Mode) (s : NCell) :
    render (Tok.coordToks (fromLegacyCfg mode).ct s) = coordToks (fromLegacy mode) s := render_coordToks _ _

/-- target region, in isolation -/
theorem target_region_agrees (mode : Mode) (e : NCell) :
    render (Tok.targetToks (fromLegacyCfg mode).prompt (fromLegacyCfg mode).ct e) = coordToks (fromLegacy mode) e :=
  render_targetToks _ _

/-- path region, in isolation (both fail on an empty path: IndexError on `solution[0]`) -/
theorem path_region_agrees (mode : Mode) (m : Tok.Maze) (sol : List NCell) :
    (Tok.pathToks (fromLegacyCfg mode).path (fromLegacyCfg mode).ct m sol).map render =
      (pathRegion (fromLegacy mode) sol).toOption := by
  rw [cfg_path, cfg_ct]
  cases sol with
  | nil => rw [pathToks_legacy_nil]; rfl
  | cons c cs =>
    rw [pathToks_legacy_cons, Option.map_some, render_append, render_coordToks]
    simp only [pathRegion, Except.toOption, fromLegacy]
    congr 2
    induction cs with
    | nil => rfl
    | cons d ds ih => simp only [List.flatMap_cons, render_append, render_coordToks, ih]

theorem render_flatMap_coordToks (ct : CoordTok) (cs : List NCell) :
    render (cs.flatMap (Tok.coordToks (cvtCt ct))) = cs.flatMap (coordToks ct) := by
  induction cs with
  | nil => rfl
  | cons d ds ih => simp only [List.flatMap_cons, render_append, render_coordToks, ih]

/-- the C06 model, at the configuration of `from_legacy(mode)`, renders to the legacy `as_tokens` sequence
    (all modes, all three kinds, non-empty path, every order whose pairs are connections) -/
theorem toTokens_fromLegacy_asTokens (mode : Mode) (mz : AnyMaze) (order : List (NCell × NCell))
    (hconn : ∀ e ∈ order, Tok.isConn (toMaze mz.base) e = true)
    (hsol : ∀ m s e sol, mz = .solved m s e sol → sol ≠ []) :
    (Tok.toTokens (fromLegacyCfg mode) (toMazeIn mz) order).map render = some (asTokens mode mz order) := by
  cases mz with
  | lattice m =>
    have ha := adjToks_legacy (cvtCt mode.coordTok) (toMaze m) order hconn
    rw [show toMazeIn (.lattice m) = .plain (toMaze m) from rfl, Tok.toTokens_plain (cfg := fromLegacyCfg mode) ha]
    simp only [Option.map_some, render_cons, render_append, render_adjRegion, render_nil, str_adjStart, str_adjEnd, asTokens]
    simp
  | targeted m s e =>
    have ha := adjToks_legacy (cvtCt mode.coordTok) (toMaze m) order hconn
    rw [show toMazeIn (.targeted m s e) = .targeted (toMaze m) s e from rfl,
      Tok.toTokens_targeted (cfg := fromLegacyCfg mode) ha]
    simp only [Option.map_some, render_cons, render_append, render_adjRegion, render_nil, str_adjStart, str_adjEnd,
      str_originStart, str_originEnd, str_targetStart, str_targetEnd, cfg_ct, cfg_prompt, render_coordToks, render_targetToks,
      asTokens]
    simp
  | solved m s e sol =>
    cases sol with
    | nil => exact absurd rfl (hsol m s e [] rfl)
    | cons c cs =>
      have ha := adjToks_legacy (cvtCt mode.coordTok) (toMaze m) order hconn
      have hp := pathToks_legacy_cons (cvtCt mode.coordTok) (toMaze m) c cs
      rw [show toMazeIn (.solved m s e (c :: cs)) = .solved (toMaze m) s e (c :: cs) from rfl,
        Tok.toTokens_solved (cfg := fromLegacyCfg mode) ha hp]
      simp only [Option.map_some, render_cons, render_append, render_adjRegion, render_nil, str_adjStart, str_adjEnd,
        str_originStart, str_originEnd, str_targetStart, str_targetEnd, str_pathStart, str_pathEnd, cfg_ct, cfg_prompt,
        render_coordToks, render_targetToks, render_flatMap_coordToks, asTokens]
      simp

/-- on an empty path the C06 model yields no tokens (the IndexError of `solution[0]`) -/
theorem toTokens_fromLegacy_empty (mode : Mode) (m : LMaze) (s e : NCell) (order : List (NCell × NCell)) :
    Tok.toTokens (fromLegacyCfg mode) (toMazeIn (.solved m s e [])) order = none := by
  have hp : Tok.pathToks (fromLegacyCfg mode).path (fromLegacyCfg mode).ct (toMaze m) [] = none := pathToks_legacy_nil _ _
  simp only [Tok.toTokens, toMazeIn, hp]
  split <;> rfl

end MZ.LT
