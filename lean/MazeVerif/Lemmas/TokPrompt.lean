import MazeVerif.Lemmas.TokAdj
import MazeVerif.Lemmas.TokPath
/-! Whole sequence: shape of `toTokens` for the three maze kinds (`_trim_if_unsolved_maze`), and `decode ∘ toTokens`. -/
namespace MZ.Tok

theorem idxOf_cons_ne' {x e : Tok} (l : List Tok) (h : x ≠ e) : (x :: l).idxOf e = l.idxOf e + 1 := by
  rw [List.idxOf_cons, beq_eq_false_iff_ne.2 h, cond_false]

theorem idxOf_mid (e : Tok) (mid rest : List Tok) (h : e ∉ mid) : (mid ++ e :: rest).idxOf e = mid.length := by
  rw [List.idxOf_append]; simp [h]

/-- `tokens_between(start … end, include both)` returns the prefix up to the first `e` when the list starts with `s` -/
theorem tokensBetween_prefix (s e : Tok) (mid rest : List Tok) (hse : s ≠ e) (hmid : e ∉ mid) :
    tokensBetween (s :: (mid ++ e :: rest)) s e true true = some (s :: (mid ++ [e])) := by
  have h1 : (s :: (mid ++ e :: rest)).idxOf s = 0 := by simp
  have h2 : (s :: (mid ++ e :: rest)).idxOf e = mid.length + 1 := by
    rw [idxOf_cons_ne' _ hse, idxOf_mid e mid rest hmid]
  have h3 : (s :: (mid ++ e :: rest)).contains s = true := by simp
  have h4 : (s :: (mid ++ e :: rest)).contains e = true := by simp
  simp only [tokensBetween, hse, if_false, h1, h2, h3, h4, if_true, Bool.not_true, Bool.or_self, Bool.false_eq_true]
  have h5 : 0 + 0 < mid.length + 1 + 1 := by omega
  simp only [h5, if_true, Nat.add_zero, List.drop_zero, Option.some.injEq]
  have : s :: (mid ++ e :: rest) = (s :: (mid ++ [e])) ++ rest := by simp
  rw [this, List.take_left' (by simp)]

theorem notMem_of_noDelim {l : List Tok} {t : Tok} (h : NoDelim l) (ht : t.isDelim = true) : t ∉ l := by
  intro hm; have := h t hm; rw [ht] at this; cases this

theorem noDelim_targetToks (p : Prompt) (ct : CoordTok) (e : C) : NoDelim (targetToks p ct e) := by
  cases p with
  | aotp post => exact (noDelim_coordToks ct e).append (noDelim_opt post .targetPost rfl)
  | aop => exact NoDelim.nil

theorem sequenceToks_eq (p : Prompt) (adj o t pa : List Tok) :
    sequenceToks p adj o t pa =
      Tok.adjStart :: (adj ++ Tok.adjEnd :: ([Tok.originStart] ++ o ++ [Tok.originEnd, Tok.targetStart] ++
        targetPart p t ++ Tok.targetEnd :: (Tok.pathStart :: (pa ++ [Tok.pathEnd])))) := by
  simp [sequenceToks]

theorem targetPart_targetToks (p : Prompt) (ct : CoordTok) (e : C) : targetPart p (targetToks p ct e) = targetToks p ct e := by
  cases p <;> rfl

/-! ### shape of the emitted sequence per maze kind: regions A | A,O,T | A,O,T,P, each delimited once, in order -/

theorem toTokens_plain {cfg : TokCfg} {m : Maze} {order : List OE} {adj : List Tok}
    (h : adjToks cfg.adj cfg.ct m order = some adj) :
    toTokens cfg (.plain m) order = some (Tok.adjStart :: (adj ++ [Tok.adjEnd])) := by
  have hnd := (noDelim_adjToks h).1
  simp only [toTokens, MazeIn.maze, h, trimIfUnsolved, if_true, sequenceToks_eq]
  exact tokensBetween_prefix _ _ _ _ (by decide) (notMem_of_noDelim hnd rfl)

theorem toTokens_targeted {cfg : TokCfg} {m : Maze} {s e : C} {order : List OE} {adj : List Tok}
    (h : adjToks cfg.adj cfg.ct m order = some adj) :
    toTokens cfg (.targeted m s e) order =
      some (Tok.adjStart :: (adj ++ Tok.adjEnd :: Tok.originStart :: (coordToks cfg.ct s ++
        Tok.originEnd :: Tok.targetStart :: (targetToks cfg.prompt cfg.ct e ++ [Tok.targetEnd])))) := by
  have hnd := (noDelim_adjToks h).1
  have ho := noDelim_coordToks cfg.ct s
  have ht := noDelim_targetToks cfg.prompt cfg.ct e
  simp only [toTokens, MazeIn.maze, h, trimIfUnsolved, sequenceToks_eq]
  rw [targetPart_targetToks]
  have hc : (Tok.adjStart :: (adj ++ Tok.adjEnd :: ([Tok.originStart] ++ coordToks cfg.ct s ++ [Tok.originEnd, Tok.targetStart] ++
      targetToks cfg.prompt cfg.ct e ++ Tok.targetEnd :: (Tok.pathStart :: (([] : List Tok) ++ [Tok.pathEnd]))))).contains Tok.targetEnd = true := by
    simp
  simp only [hc, if_true, Bool.false_eq_true, if_false]
  have hre : Tok.adjStart :: (adj ++ Tok.adjEnd :: ([Tok.originStart] ++ coordToks cfg.ct s ++ [Tok.originEnd, Tok.targetStart] ++
      targetToks cfg.prompt cfg.ct e ++ Tok.targetEnd :: (Tok.pathStart :: (([] : List Tok) ++ [Tok.pathEnd])))) =
      Tok.adjStart :: ((adj ++ Tok.adjEnd :: Tok.originStart :: (coordToks cfg.ct s ++ Tok.originEnd :: Tok.targetStart ::
        targetToks cfg.prompt cfg.ct e)) ++ Tok.targetEnd :: [Tok.pathStart, Tok.pathEnd]) := by simp
  rw [hre, tokensBetween_prefix _ _ _ _ (by decide)]
  · simp
  · have h1 := notMem_of_noDelim (t := Tok.targetEnd) hnd rfl
    have h2 := notMem_of_noDelim (t := Tok.targetEnd) ho rfl
    have h3 := notMem_of_noDelim (t := Tok.targetEnd) ht rfl
    simp [h1, h2, h3]

theorem toTokens_solved {cfg : TokCfg} {m : Maze} {s e : C} {sol : List C} {order : List OE} {adj path : List Tok}
    (h : adjToks cfg.adj cfg.ct m order = some adj) (hp : pathToks cfg.path cfg.ct m sol = some path) :
    toTokens cfg (.solved m s e sol) order =
      some (Tok.adjStart :: (adj ++ Tok.adjEnd :: Tok.originStart :: (coordToks cfg.ct s ++
        Tok.originEnd :: Tok.targetStart :: (targetToks cfg.prompt cfg.ct e ++ Tok.targetEnd :: Tok.pathStart :: (path ++ [Tok.pathEnd]))))) := by
  simp only [toTokens, MazeIn.maze, h, hp, trimIfUnsolved, sequenceToks_eq, Bool.false_eq_true, if_false]
  rw [targetPart_targetToks]
  simp

/-! ### the record `pathInfo` is always well-formed -/

theorem allSteps_kinds {pc : PathCfg} {sol : List C} : ∀ {prs : List (Nat × Nat)} {ss : List (List StepVal)},
    allSteps pc sol prs = some ss → ∀ vs ∈ ss, vs.map StepVal.kind = pc.steps
  | [], ss, h => by simp [allSteps] at h; subst h; intro vs hvs; cases hvs
  | ij :: rest, ss, h => by
    simp only [allSteps] at h
    cases h1 : stepVals sol ij.1 ij.2 pc.steps with
    | none => simp [h1] at h
    | some v =>
      cases h2 : allSteps pc sol rest with
      | none => simp [h1, h2] at h
      | some r =>
        simp [h1, h2] at h; subst h
        intro vs hvs
        rcases List.mem_cons.1 hvs with rfl | hm
        · exact stepVals_kinds h1
        · exact allSteps_kinds h2 vs hm

theorem pathInfo_wf {pc : PathCfg} {m : Maze} {sol : List C} {p : PathInfo} (h : pathInfo pc m sol = some p) : p.WF pc := by
  unfold pathInfo at h
  by_cases hc : StepTk.coord ∈ pc.steps
  · simp only [hc, if_true] at h
    cases h0 : sol[0]? with
    | none => simp [h0] at h
    | some c =>
      cases h2 : allSteps pc sol (idxPairs (stepIdxs pc.forks m sol)) with
      | none => simp [h0, h2] at h
      | some ss =>
        simp [h0, h2] at h; subst h
        exact ⟨by simp [hc], allSteps_kinds h2⟩
  · simp only [hc, if_false] at h
    cases h2 : allSteps pc sol (idxPairs (stepIdxs pc.forks m sol)) with
    | none => simp [h2] at h
    | some ss =>
      simp [h2] at h; subst h
      exact ⟨by simp [hc], allSteps_kinds h2⟩

theorem parseTarget_targetToks (p : Prompt) (ct : CoordTok) (e : C) (rest : List Tok) :
    parseTarget p ct (targetToks p ct e ++ rest) = some (targetList p e, rest) := by
  cases p with
  | aotp post => simp only [parseTarget, targetToks, targetList, List.append_assoc, parseCoord_coordToks, eat_opt]
  | aop => simp [parseTarget, targetToks, targetList]

/-! ### whole-sequence round trip -/

theorem decode_plain {cfg : TokCfg} {m : Maze} {order : List OE} {adj : List Tok}
    (h : adjToks cfg.adj cfg.ct m order = some adj) :
    decode cfg (Tok.adjStart :: (adj ++ [Tok.adjEnd])) = some ⟨emitted m order, none, none, none⟩ := by
  have hl := (noDelim_adjToks h).2
  have hm := parseMany_adjToks (cfg := cfg.adj) (ct := cfg.ct) (m := m) [] h ((adj ++ [Tok.adjEnd]).length + 1)
    (by simp only [List.length_append, List.length_cons, List.length_nil]; omega)
  simp only [decode, hm]

theorem decode_targeted {cfg : TokCfg} {m : Maze} {s e : C} {order : List OE} {adj : List Tok}
    (h : adjToks cfg.adj cfg.ct m order = some adj) :
    decode cfg (Tok.adjStart :: (adj ++ Tok.adjEnd :: Tok.originStart :: (coordToks cfg.ct s ++
        Tok.originEnd :: Tok.targetStart :: (targetToks cfg.prompt cfg.ct e ++ [Tok.targetEnd])))) =
      some ⟨emitted m order, some s, some (targetList cfg.prompt e), none⟩ := by
  have hl := (noDelim_adjToks h).2
  have hm := parseMany_adjToks (cfg := cfg.adj) (ct := cfg.ct) (m := m)
    (Tok.originStart :: (coordToks cfg.ct s ++ Tok.originEnd :: Tok.targetStart :: (targetToks cfg.prompt cfg.ct e ++ [Tok.targetEnd])))
    h ((adj ++ Tok.adjEnd :: Tok.originStart :: (coordToks cfg.ct s ++
        Tok.originEnd :: Tok.targetStart :: (targetToks cfg.prompt cfg.ct e ++ [Tok.targetEnd]))).length + 1)
    (by simp only [List.length_append, List.length_cons]; omega)
  simp only [decode, hm, parseCoord_coordToks, parseTarget_targetToks]

theorem decode_solved {cfg : TokCfg} {m : Maze} {s e : C} {order : List OE} {adj : List Tok} {p : PathInfo}
    (h : adjToks cfg.adj cfg.ct m order = some adj) (hne : cfg.path.steps ≠ []) (hwf : p.WF cfg.path) :
    decode cfg (Tok.adjStart :: (adj ++ Tok.adjEnd :: Tok.originStart :: (coordToks cfg.ct s ++
        Tok.originEnd :: Tok.targetStart :: (targetToks cfg.prompt cfg.ct e ++ Tok.targetEnd :: Tok.pathStart ::
          (pathInfoToks cfg.path cfg.ct p ++ [Tok.pathEnd]))))) =
      some ⟨emitted m order, some s, some (targetList cfg.prompt e), some p⟩ := by
  have hl := (noDelim_adjToks h).2
  have hm := parseMany_adjToks (cfg := cfg.adj) (ct := cfg.ct) (m := m)
    (Tok.originStart :: (coordToks cfg.ct s ++ Tok.originEnd :: Tok.targetStart :: (targetToks cfg.prompt cfg.ct e ++
      Tok.targetEnd :: Tok.pathStart :: (pathInfoToks cfg.path cfg.ct p ++ [Tok.pathEnd]))))
    h ((adj ++ Tok.adjEnd :: Tok.originStart :: (coordToks cfg.ct s ++
        Tok.originEnd :: Tok.targetStart :: (targetToks cfg.prompt cfg.ct e ++ Tok.targetEnd :: Tok.pathStart ::
          (pathInfoToks cfg.path cfg.ct p ++ [Tok.pathEnd])))).length + 1)
    (by simp only [List.length_append, List.length_cons]; omega)
  have hpp := parsePath_pathInfoToks cfg.path cfg.ct hne p hwf Tok.pathEnd rfl []
  simp only [decode, hm, parseCoord_coordToks, parseTarget_targetToks, hpp]

end MZ.Tok
