/-! Interaction-tree model of RNG use by `MazeDataset.generate` / `from_config` (maze_dataset.py:283-340,
    dataset.py:83-94, 273-277, 375-407; generators.py:17-32,137,163; lattice_maze.py:433-494).

    A program is a tree of RNG events: it can re-seed one of the four generators the library can reach
    (`random`, numpy's global `np.random`, torch's global generator, the module-level `numpy_rng` of generators.py:17)
    or draw from one of them and continue depending on the drawn value.  Everything between two RNG events is
    assumed deterministic (that assumption is tested by the harness, not provable here).  The RNG implementation
    itself is a parameter (`Impl`): any state type, any `seed`, any `draw`.  Core Lean only. -/
namespace MZ.Rng

inductive RngId where
  | py      -- python `random` module (generators.py:137,163)
  | np      -- numpy global RandomState (generators.py:24, 251, 262, 328, 372; lattice_maze.py:447, 488, 494)
  | torch   -- torch global generator (seeded by set_reproducibility; never drawn from by generation)
  | npGen   -- `generators.numpy_rng = np.random.default_rng(GLOBAL_SEED)`: created at import, NEVER re-seeded
  deriving DecidableEq, Repr

abbrev Val := Nat

/-- an arbitrary RNG implementation: state type, how seeding builds a state, how a draw (with a request
    parameter: range, shape, …) yields a value and the next state -/
structure Impl where
  S : Type
  seed : Nat → S
  draw : S → Nat → Val × S

/-- programs over RNG events returning `α` -/
inductive Prog (α : Type) where
  | ret (a : α)
  | seed (r : RngId) (s : Nat) (k : Prog α)
  | draw (r : RngId) (req : Nat) (k : Val → Prog α)

abbrev States (I : Impl) := RngId → I.S

def setSt {I : Impl} (σ : States I) (r : RngId) (s : I.S) : States I := fun r' => if r' = r then s else σ r'

/-- run a program from RNG states `σ`: result and final states -/
def run {I : Impl} {α} : Prog α → States I → α × States I
  | .ret a, σ => (a, σ)
  | .seed r s k, σ => run k (setSt σ r (I.seed s))
  | .draw r req k, σ =>
    let vs := I.draw (σ r) req
    run (k vs.1) (setSt σ r vs.2)

def bind {α β} : Prog α → (α → Prog β) → Prog β
  | .ret a, f => f a
  | .seed r s k, f => .seed r s (bind k f)
  | .draw r req k, f => .draw r req (fun v => bind (k v) f)

/-- `WS sd p`: on every branch of `p`, every draw from generator `r` happens after a `seed r _` of `p` itself,
    or `r` is already in the seeded set `sd` -/
def WS {α} (sd : RngId → Bool) : Prog α → Prop
  | .ret _ => True
  | .seed r _ k => WS (fun r' => if r' = r then true else sd r') k
  | .draw r _ k => sd r = true ∧ ∀ v, WS sd (k v)

/-- well-seeded from scratch: nothing is assumed about the generators on entry -/
def WellSeeded {α} (p : Prog α) : Prop := WS (fun _ => false) p

/-- `p` touches only generators from `rs` -/
def UsesOnly {α} (rs : RngId → Bool) : Prog α → Prop
  | .ret _ => True
  | .seed r _ k => rs r = true ∧ UsesOnly rs k
  | .draw r _ k => rs r = true ∧ ∀ v, UsesOnly rs (k v)

/-! ### observable event traces (what the harness records from the real run) -/

inductive Event where
  | seed (r : RngId) (s : Nat)
  | draw (r : RngId)
  deriving DecidableEq, Repr

/-- the events of one run -/
def trace {I : Impl} {α} : Prog α → States I → List Event
  | .ret _, _ => []
  | .seed r s k, σ => .seed r s :: trace k (setSt σ r (I.seed s))
  | .draw r req k, σ =>
    let vs := I.draw (σ r) req
    .draw r :: trace (k vs.1) (setSt σ r vs.2)

/-- executable check on a recorded trace: every draw is preceded by a seed of the same generator -/
def wsTrace (sd : RngId → Bool) : List Event → Bool
  | [] => true
  | .seed r _ :: es => wsTrace (fun r' => if r' = r then true else sd r') es
  | .draw r :: es => sd r && wsTrace sd es

/-- index of the first draw from an unseeded generator, if any -/
def firstUnseeded (sd : RngId → Bool) : List Event → Nat → Option Nat
  | [], _ => none
  | .seed r _ :: es, i => firstUnseeded (fun r' => if r' = r then true else sd r') es (i + 1)
  | .draw r :: es, i => if sd r then firstUnseeded sd es (i + 1) else some i

/-- all seed events carry the configuration's seed -/
def seedsAre (s : Nat) : List Event → Bool
  | [] => true
  | .seed _ s' :: es => s' == s && seedsAre s es
  | .draw _ :: es => seedsAre s es

/-! ### the shape of `MazeDataset.generate` (serial) and of `from_config(load_local=False, save_local=False)` -/

/-- `set_reproducibility(seed)` (muutils): `random.seed`, `np.random.seed`, `torch.manual_seed` -/
def setReproducibility {α} (s : Nat) (k : Prog α) : Prog α :=
  .seed .py s (.seed .np s (.seed .torch s k))

/-- `n` per-maze steps in sequence, collecting the results (`map(_generate_maze_helper, maze_indexes)`) -/
def repeatGen {μ} (g : Prog μ) : Nat → Prog (List μ)
  | 0 => .ret []
  | n + 1 => bind g (fun m => bind (repeatGen g n) (fun ms => .ret (m :: ms)))

/-- serial `generate(cfg)` (maze_dataset.py:292-340): `cfg_cpy = load(serialize(cfg))` runs `__post_init__` and so
    `set_reproducibility(seed)`; the serial branch only publishes the config for `_generate_maze_helper` (it no longer calls
    `_maze_gen_init_worker`, which re-seeded numpy by worker id whenever the CALLING process was a multiprocessing child —
    finding `serial-generate-in-mp-child-reseeds`, repaired); `n` times maze constructor +
    `generate_random_path` (`g`); `np.random.seed(seed)` afterwards -/
def generateProg {μ} (seed n : Nat) (g : Prog μ) : Prog (List μ) :=
  setReproducibility seed (bind (repeatGen g n) (fun ms => .seed .np seed (.ret ms)))

/-- `from_config` without cache: `generate`, then the recorded filters in order (pure functions of the maze list;
    `filters` = their meanings) -/
def fromConfigProg {μ} (seed n : Nat) (g : Prog μ) (filters : List (List μ → List μ)) : Prog (List μ) :=
  bind (generateProg seed n g) (fun ms => .ret (filters.foldl (fun acc f => f acc) ms))

/-! ### the configuration object passed in: a two-cell heap -/

/-- a config cell: the seed and the recorded filter names (all that `from_config` could mutate) -/
structure CfgCell where
  seed : Nat
  filters : List String
  nMazes : Nat
  deriving DecidableEq, Repr

/-- `from_config(load_local=False, save_local=False)` on a heap of config cells: `generate` allocates a copy of
    the request cell (`cfg_cpy`, maze_dataset.py:292) and builds the dataset around THAT cell;
    `_apply_filters_from_config` clears and refills `output.cfg.applied_filters` and `update_self_config` writes
    `n_mazes` — all on the dataset's cell.  Returns the heap afterwards and the address of the dataset's cell. -/
def fromConfigHeap (heap : List CfgCell) (req : Nat) (nAfter : Nat) : Option (List CfgCell × Nat) :=
  match heap[req]? with
  | none => none
  | some c =>
    let addr := heap.length                                   -- cfg_cpy = MazeDatasetConfig.load(cfg.serialize())
    let heap1 := heap ++ [c]
    let cleared := heap1.set addr { c with filters := [] }     -- output.cfg.applied_filters = list()
    let refilled := cleared.set addr { c with filters := c.filters, nMazes := nAfter }   -- each wrapper appends; update_self_config
    some (refilled, addr)

end MZ.Rng
