import MazeVerif.Model.Wilson
/-! `gen_wilson` as a flat step machine over canonical (bitmask) states, for the probability semantics of C19.
    One step = one random draw of the real code: either the choice of the walk start among the unvisited cells
    (`np.random.choice(unvisited_coords.shape[0])`, row-major order) or one step of the loop-erased walk
    (`np.random.choice(neighbors.shape[0])`, `NEIGHBORS_MASK` order). Cells are indexed `r*cols + c`, connection
    `(d, r, c)` has bit `d*rows*cols + r*cols + c`. Core only. -/
namespace MZ.WStep

structure WS where
  vis : Nat            -- bitmask of visited cells
  edges : Nat          -- bitmask of stored connections
  path : List Nat      -- current walk (cell indices); `[]` between walks
deriving DecidableEq, Repr, BEq, Hashable

def bit (m i : Nat) : Bool := m.testBit i

/-- in-grid neighbours of cell `i` in `NEIGHBORS_MASK` order (0,1),(0,-1),(1,0),(-1,0) -/
def nbrsOf (rows cols i : Nat) : List Nat :=
  let r := i / cols; let c := i % cols
  (if c + 1 < cols then [i + 1] else []) ++ (if 1 ≤ c then [i - 1] else []) ++
  (if r + 1 < rows then [i + cols] else []) ++ (if 1 ≤ r then [i - cols] else [])

/-- bit of the connection between lattice neighbours `a`, `b` (storage rule: at the lesser endpoint) -/
def edgeBit (rows cols a b : Nat) : Nat :=
  let lo := min a b; let hi := max a b
  if lo / cols = hi / cols then rows * cols + lo else lo   -- same row: dim 1, else dim 0

def unvisited (rows cols : Nat) (vis : Nat) : List Nat := (List.range (rows * cols)).filter fun i => !bit vis i

/-- write a finished walk into the maze: `visited[c_1] = True` and the connection for every consecutive pair -/
def attachGo (rows cols : Nat) : Nat → Nat → List Nat → Nat × Nat
  | vis, edges, a :: b :: rest => attachGo rows cols (vis ||| (1 <<< a)) (edges ||| (1 <<< edgeBit rows cols a b)) (b :: rest)
  | vis, edges, _ => (vis, edges)

/-- after a move: if the walk's head is a visited cell the walk is written out -/
def settle (rows cols : Nat) (s : WS) : WS :=
  match s.path.getLast? with
  | none => s
  | some last =>
    if bit s.vis last then
      let ve := attachGo rows cols s.vis s.edges s.path
      { vis := ve.1, edges := ve.2, path := [] }
    else s

def finished (rows cols : Nat) (s : WS) : Bool := s.path.isEmpty && (unvisited rows cols s.vis).isEmpty

/-- number of equally likely values of the next draw -/
def arity (rows cols : Nat) (s : WS) : Nat :=
  match s.path.getLast? with
  | none => (unvisited rows cols s.vis).length
  | some cur => (nbrsOf rows cols cur).length

/-- the state after the next draw takes the value `k` -/
def next (rows cols : Nat) (s : WS) (k : Nat) : WS :=
  match s.path.getLast? with
  | none =>
    match (unvisited rows cols s.vis)[k]? with
    | some u => settle rows cols { s with path := [u] }
    | none => s
  | some cur =>
    match (nbrsOf rows cols cur)[k]? with
    | some nx =>
      let p := if s.path.contains nx then s.path.take (s.path.idxOf nx + 1) else s.path ++ [nx]
      settle rows cols { s with path := p }
    | none => s

/-- the start states: `_random_start_coord` draws row < max(rows-1,1) and column < max(cols-1,1), independently
    and uniformly, and marks that cell visited -/
def starts (rows cols : Nat) : List WS :=
  (List.range (max (rows - 1) 1)).flatMap fun r => (List.range (max (cols - 1) 1)).map fun c =>
    { vis := 1 <<< (r * cols + c), edges := 0, path := [] }

/-- run the machine on a draw list (for the trace-replay correspondence): the first two draws select the start -/
def runFrom (rows cols : Nat) : WS → List Nat → Nat → Option (WS × List Nat)
  | s, draws, 0 => if finished rows cols s then some (s, draws) else none
  | s, draws, fuel + 1 =>
    if finished rows cols s then some (s, draws)
    else match draws with
      | [] => none
      | k :: rest => if k < arity rows cols s then runFrom rows cols (next rows cols s k) rest fuel else none

def run (rows cols : Nat) (draws : List Nat) (fuel : Nat) : Option (WS × List Nat) :=
  match draws with
  | a :: b :: rest =>
    if a < max (rows - 1) 1 ∧ b < max (cols - 1) 1 then
      runFrom rows cols { vis := 1 <<< (a * cols + b), edges := 0, path := [] } rest fuel
    else none
  | _ => none

/-- the connection list encoded by an edge mask -/
def edgesOfMask (rows cols : Nat) (m : Nat) : List Edge :=
  (List.range (2 * rows * cols)).filterMap fun b =>
    if bit m b then
      let d := b / (rows * cols); let i := b % (rows * cols)
      some (d, ((i / cols : Nat) : Int), ((i % cols : Nat) : Int))
    else none

end MZ.WStep
