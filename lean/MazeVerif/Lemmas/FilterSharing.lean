import MazeVerif.Lemmas.Filters
/-! Helper lemmas for the history-level part of C08: which cells one filter application allocates or writes (`FreshStep` /
`InPlaceStep`), the "no sharing" invariants (`Heap.Closed`, `Heap.Isolated`, `Heap.Disjoint`) and what it means for a
dataset to be left alone (`Heap.Untouched`). -/
namespace MZ.Filt
open MZ.Gen (PyLit filterTable)

/-- the operation is `collect_generation_meta` called in its documented in-place mode: the bound value of `inplace`
    (positional, keyword or the default from the generated table) is truthy -/
def Op.inplaceCollect : Op → Bool
  | .reg c =>
    match FName.ofString c.name, filterTable.find? (fun e => e.1 == c.name) with
    | some .collectMeta, some e =>
      (match bindParams e.2.2 c.args c.kwargs with
       | .ok [_, ip, _] => truthy ip
       | _ => false)
    | _, _ => false
  | .custom _ _ _ => false

/-! ## the invariants -/

/-- no dangling references: every dataset object references an existing config cell and existing maze cells -/
def Heap.Closed (h : Heap) : Prop :=
  ∀ (i : Nat) (ds : DS), h.dsets[i]? = some ds → ds.cfg < h.cfgs.length ∧ ∀ a ∈ ds.mazes, a < h.mazes.length

/-- dataset `d` shares neither its config cell nor any maze cell with another dataset object (the same maze cell may
    well occur at several positions of `d` itself) -/
def Heap.Isolated (h : Heap) (d : Nat) : Prop :=
  ∀ (ds : DS) (j : Nat) (dj : DS), h.dsets[d]? = some ds → h.dsets[j]? = some dj → j ≠ d → dj.cfg ≠ ds.cfg ∧ ∀ a ∈ dj.mazes, a ∉ ds.mazes

/-- no maze cell and no config cell is referenced by two different dataset objects -/
def Heap.Disjoint (h : Heap) : Prop := ∀ d, h.Isolated d

/-- dataset `i` is exactly as it was: the same dataset object (same config reference, same list of maze references, same
    collected metadata), the same CONTENT of its config cell (applied_filters, n_mazes, the rest) and the same CONTENT of
    each of its maze cells (all compared fields and `generation_meta`) -/
def Heap.Untouched (h h' : Heap) (i : Nat) : Prop :=
  h'.dsets[i]? = h.dsets[i]? ∧
  ∀ ds : DS, h.dsets[i]? = some ds → h'.cfgs[ds.cfg]? = h.cfgs[ds.cfg]? ∧ ∀ a ∈ ds.mazes, h'.mazes[a]? = h.mazes[a]?

/-! ## the two shapes of a step -/

/-- a copying step: everything that existed is still there unchanged (prefixes), ONE dataset object was appended, it
    references a config cell and maze cells that did not exist before -/
def FreshStep (h h' : Heap) (d' : Nat) : Prop :=
  h.cfgs <+: h'.cfgs ∧ h.mazes <+: h'.mazes ∧ d' = h.dsets.length ∧
  ∃ ds', h'.dsets = h.dsets ++ [ds'] ∧ ds'.cfg = h.cfgs.length ∧ h.cfgs.length < h'.cfgs.length ∧
    ∀ a ∈ ds'.mazes, h.mazes.length ≤ a ∧ a < h'.mazes.length

/-- an in-place step on dataset `d`: the same dataset object is returned; only its `gmc` field, the content of ITS config
    cell and the contents of ITS maze cells may have changed; nothing was allocated -/
def InPlaceStep (h : Heap) (d : Nat) (h' : Heap) (d' : Nat) : Prop :=
  d' = d ∧ ∃ ds c g' c', h.dsets[d]? = some ds ∧ h.cfgs[ds.cfg]? = some c ∧
    h'.dsets = h.dsets.set d { ds with gmc := g' } ∧ h'.cfgs = h.cfgs.set ds.cfg c' ∧
    h'.mazes.length = h.mazes.length ∧ ∀ b : Nat, b ∉ ds.mazes → h'.mazes[b]? = h.mazes[b]?

theorem prefix_getElem? {α} {l l' : List α} (hp : l <+: l') {b : Nat} (hb : b < l.length) : l'[b]? = l[b]? := by
  obtain ⟨t, rfl⟩ := hp
  exact List.getElem?_append_left hb

theorem prefix_of_getElem? {α} (l l' : List α) (hlen : l.length ≤ l'.length)
    (h : ∀ b : Nat, b < l.length → l'[b]? = l[b]?) : l <+: l' := by
  rw [List.prefix_iff_eq_take]
  apply List.ext_getElem?
  intro b
  by_cases hb : b < l.length
  · rw [List.getElem?_take_of_lt hb, h b hb]
  · rw [List.getElem?_eq_none_iff.2 (by omega), List.getElem?_eq_none_iff.2 (by simp; omega)]

theorem Copied.freshStep {h : Heap} {c : Cfg} {h' : Heap} {d' : Nat} {ms' : List Maze} {g : Option Collected} {r : FilterRec}
    (hc : Copied h c h' d' ms' g r) : FreshStep h h' d' := by
  obtain ⟨rfl, rfl⟩ := hc
  refine ⟨List.prefix_append _ _, List.prefix_append _ _, rfl, _, rfl, rfl, by simp [outHeap], ?_⟩
  intro a ha
  simp only [List.mem_range'_1] at ha
  simp only [outHeap, List.length_append]
  exact ha

theorem regStep_method {np : Percentile} {h : Heap} {d : Nat} {f : FName} {vals : List PyLit} {r : FilterRec}
    {res : Heap × Nat} (hs : regStep np h d f vals r = .ok res) : ∃ h1 nd, method np h d f vals = .ok (h1, nd) := by
  unfold regStep at hs
  split at hs
  · cases hs
  · next h1 nd hm => exact ⟨h1, nd, hm⟩

theorem method_view {np : Percentile} {h : Heap} {d : Nat} {f : FName} {vals : List PyLit} {res : Heap × Nat}
    (hm : method np h d f vals = .ok res) : ∃ ds c ms, h.view d = some (ds, c, ms) := by
  unfold method at hm
  split at hm
  · cases hm
  · next ds c ms hv => exact ⟨ds, c, ms, hv⟩

/-- `collect_generation_meta(inplace=False)` on a dataset without collected metadata: the loop writes only to the freshly
    allocated copies -/
theorem collectCopy_freshStep {np : Percentile} {h : Heap} {d : Nat} {cl ip af : PyLit} {r : FilterRec} {h' : Heap} {d' : Nat}
    {ds : DS} {c : Cfg} {ms : List Maze} (hv : h.view d = some (ds, c, ms)) (hg : ds.gmc = none) (hip : truthy ip = false)
    (hs : regStep np h d .collectMeta [cl, ip, af] r = .ok (h', d')) : FreshStep h h' d' := by
  unfold regStep at hs
  split at hs
  · cases hs
  · next h1 nd hm =>
    simp only [method, hv, collectMethod, hg, Option.isSome_none, Bool.false_eq_true, if_false, hip] at hm
    split at hm
    · cases hm
    · next m0 rest =>
      split at hm
      · cases hm
      · split at hm
        · cases hm
        · next h1' nd' hcp =>
          obtain ⟨_, rfl, rfl⟩ := copyNew_ok hcp
          simp only [List.getElem?_concat_length] at hm
          split at hm
          · cases hm
          · next mz g hl =>
            simp only [Except.ok.injEq, Prod.mk.injEq] at hm
            obtain ⟨rfl, rfl⟩ := hm
            obtain ⟨rfl, ds2, c2, hds2, hcc2, e1, e2, e3⟩ := finish_cfgOf hs
            obtain ⟨f1, _, f3⟩ := collectLoop_frame _ _ _ _ _ _ _ hl
            simp at hds2
            subst hds2
            simp only [List.length_append] at f1
            refine ⟨?_, ?_, rfl, { cfg := h.cfgs.length, mazes := List.range' h.mazes.length (m0 :: rest).length, gmc := some g }, ?_, rfl, ?_, ?_⟩
            · rw [e3]; simp
            · rw [e2]
              apply prefix_of_getElem? _ _ (by rw [f1]; omega)
              intro b hb
              rw [f3 b (by simp [List.mem_range'_1]; omega), List.getElem?_append_left hb]
            · rw [e1]; simp
            · rw [e3]; simp
            · intro a ha
              simp only [List.mem_range'_1] at ha
              rw [e2, f1]
              exact ha

/-- `collect_generation_meta` in its in-place mode, whether or not metadata was collected before -/
theorem collectInplace_step {np : Percentile} {h : Heap} {d : Nat} {cl ip af : PyLit} {r : FilterRec} {h' : Heap} {d' : Nat}
    {ds : DS} {c : Cfg} {ms : List Maze} (hv : h.view d = some (ds, c, ms)) (hip : truthy ip = true)
    (hs : regStep np h d .collectMeta [cl, ip, af] r = .ok (h', d')) : InPlaceStep h d h' d' := by
  obtain ⟨_, hds, hcc, _⟩ := view_cfgOf hv
  have hlt := idx_lt_of_getElem? hds
  unfold regStep at hs
  split at hs
  · cases hs
  · next h1 nd hm =>
    cases hg : ds.gmc with
    | some g0 =>
      simp only [method, hv, collectMethod, hg, Option.isSome_some, if_true, hip, Except.ok.injEq, Prod.mk.injEq] at hm
      rw [← hm.1, ← hm.2] at hs
      obtain ⟨rfl, ds2, c2, hds2, hcc2, e1, e2, e3⟩ := finish_cfgOf hs
      rw [hds] at hds2
      cases hds2
      refine ⟨rfl, ds, c, ds.gmc, _, hds, hcc, ?_, e3, by rw [e2], fun b _ => by rw [e2]⟩
      rw [e1]
      apply List.ext_getElem?
      intro b
      by_cases hb : d' = b
      · subst hb; rw [List.getElem?_set_self hlt, hds]
      · rw [List.getElem?_set_ne hb]
    | none =>
      simp only [method, hv, collectMethod, hg, Option.isSome_none, Bool.false_eq_true, if_false, hip, if_true] at hm
      split at hm
      · cases hm
      · split at hm
        · cases hm
        · simp only [hds] at hm
          split at hm
          · cases hm
          · next mz g hl =>
            simp only [Except.ok.injEq, Prod.mk.injEq] at hm
            obtain ⟨rfl, rfl⟩ := hm
            obtain ⟨rfl, ds2, c2, hds2, hcc2, e1, e2, e3⟩ := finish_cfgOf hs
            simp only [List.getElem?_set_self hlt, Option.some.injEq] at hds2
            subst hds2
            obtain ⟨f1, _, f3⟩ := collectLoop_frame _ _ _ _ _ _ _ hl
            exact ⟨rfl, ds, c, some g, _, hds, hcc, e1, e3, by rw [e2]; exact f1, fun b hb => by rw [e2]; exact f3 b hb⟩

/-- EVERY successful filter application has one of the two shapes, and which one is decided by `Op.inplaceCollect` -/
theorem applyOp_shape {np : Percentile} {h : Heap} {d : Nat} {op : Op} {h' : Heap} {d' : Nat}
    (hs : applyOp np h d op = .ok (h', d')) :
    (op.inplaceCollect = false ∧ FreshStep h h' d') ∨ (op.inplaceCollect = true ∧ InPlaceStep h d h' d') := by
  cases op with
  | reg call =>
    obtain ⟨f, vals, e, hf, he, hb, hr⟩ := applyReg_regStep hs
    obtain ⟨h1, nd, hm⟩ := regStep_method hr
    obtain ⟨ds, c, ms0, hv⟩ := method_view hm
    by_cases hne : f = .collectMeta
    · subst hne
      simp only [Op.inplaceCollect, hf, he, hb]
      rcases vals with _ | ⟨cl, _ | ⟨ip, _ | ⟨af, _ | ⟨x, rest⟩⟩⟩⟩
      · simp [method, hv] at hm
      · simp [method, hv] at hm
      · simp [method, hv] at hm
      · simp only
        cases hip : truthy ip with
        | true => exact Or.inr ⟨rfl, collectInplace_step hv hip hr⟩
        | false =>
          refine Or.inl ⟨rfl, ?_⟩
          cases hg : ds.gmc with
          | none => exact collectCopy_freshStep hv hg hip hr
          | some g0 =>
            have hcop : Copied h c h' d' ms0 (some g0) call.record := regStep_of_copyNew hr (by
              intro h1 nd hm
              simp only [method, hv, collectMethod, hg, Option.isSome_some, if_true, hip, Bool.false_eq_true, if_false] at hm
              exact hm)
            exact hcop.freshStep
      · simp [method, hv] at hm
    · have hop : (Op.reg call).inplaceCollect = false := by
        simp only [Op.inplaceCollect, hf, he]
        cases f <;> first | rfl | exact absurd rfl hne
      obtain ⟨ds2, c2, ms2, ms, g, hv2, hc⟩ := method_copy hne hm
      have hcop : Copied h c2 h' d' ms g call.record :=
        regStep_of_copyNew hr (fun h1' nd' hm' => by rw [hm] at hm'; cases hm'; exact hc)
      exact Or.inl ⟨hop, hcop.freshStep⟩
  | custom fname p kw =>
    obtain ⟨ds, c, ms, _, _, hcop⟩ := customFilter_spec hs
    exact Or.inl ⟨rfl, hcop.freshStep⟩

/-! ## what the shapes do to the invariants -/

theorem FreshStep.dsets_old {h h' : Heap} {d' : Nat} (hf : FreshStep h h' d') {i : Nat} (hi : i < h.dsets.length) :
    h'.dsets[i]? = h.dsets[i]? := by
  obtain ⟨_, _, _, ds', e, _⟩ := hf
  rw [e, List.getElem?_append_left hi]

/-- in the new heap a dataset is either an old one (unchanged) or the appended one -/
theorem FreshStep.dsets_cases {h h' : Heap} {d' : Nat} (hf : FreshStep h h' d') {i : Nat} {x : DS} (hx : h'.dsets[i]? = some x) :
    (i < h.dsets.length ∧ h.dsets[i]? = some x) ∨
    (i = h.dsets.length ∧ x.cfg = h.cfgs.length ∧ ∀ a ∈ x.mazes, h.mazes.length ≤ a ∧ a < h'.mazes.length) := by
  obtain ⟨_, _, _, ds', e, hc, _, hm⟩ := hf
  rw [e] at hx
  rcases Nat.lt_or_ge i h.dsets.length with hi | hi
  · rw [List.getElem?_append_left hi] at hx
    exact Or.inl ⟨hi, hx⟩
  · have hlt := idx_lt_of_getElem? hx
    simp only [List.length_append, List.length_singleton] at hlt
    have : i = h.dsets.length := by omega
    subst this
    simp only [List.getElem?_concat_length, Option.some.injEq] at hx
    subst hx
    exact Or.inr ⟨rfl, hc, hm⟩

theorem FreshStep.closed {h h' : Heap} {d' : Nat} (hf : FreshStep h h' d') (hc : h.Closed) : h'.Closed := by
  intro i x hx
  have hl1 := hf.1.length_le
  have hl2 := hf.2.1.length_le
  rcases hf.dsets_cases hx with ⟨_, ho⟩ | ⟨_, e1, e2⟩
  · obtain ⟨a1, a2⟩ := hc i x ho
    exact ⟨by omega, fun a ha => by have := a2 a ha; omega⟩
  · obtain ⟨_, _, _, _, _, _, hlt, _⟩ := hf
    exact ⟨by omega, fun a ha => (e2 a ha).2⟩

/-- the appended dataset is isolated, and every old isolated dataset stays isolated -/
theorem FreshStep.isolated {h h' : Heap} {d' : Nat} (hf : FreshStep h h' d') (hc : h.Closed) {i : Nat}
    (hi : i = h.dsets.length ∨ h.Isolated i) : h'.Isolated i := by
  intro x j xj hx hxj hne
  rcases hf.dsets_cases hx with ⟨hil, ho⟩ | ⟨rfl, e1, e2⟩
  · have hiso : h.Isolated i := by
      rcases hi with rfl | hi
      · omega
      · exact hi
    rcases hf.dsets_cases hxj with ⟨_, hoj⟩ | ⟨_, f1, f2⟩
    · exact hiso x j xj ho hoj hne
    · obtain ⟨a1, a2⟩ := hc i x ho
      exact ⟨by omega, fun a ha hin => by have := a2 a hin; have := (f2 a ha).1; omega⟩
  · rcases hf.dsets_cases hxj with ⟨_, hoj⟩ | ⟨hjl, _, _⟩
    · obtain ⟨a1, a2⟩ := hc j xj hoj
      exact ⟨by omega, fun a ha hin => by have := a2 a ha; have := (e2 a hin).1; omega⟩
    · exact absurd hjl hne

theorem FreshStep.untouched {h h' : Heap} {d' : Nat} (hf : FreshStep h h' d') (hc : h.Closed) {i : Nat}
    (hi : i < h.dsets.length) : h.Untouched h' i := by
  refine ⟨hf.dsets_old hi, fun ds hds => ?_⟩
  obtain ⟨a1, a2⟩ := hc i ds hds
  exact ⟨prefix_getElem? hf.1 a1, fun a ha => prefix_getElem? hf.2.1 (a2 a ha)⟩

/-- an in-place step keeps every dataset object's references -/
theorem InPlaceStep.dsets_refs {h h' : Heap} {d d' : Nat} (hp : InPlaceStep h d h' d') {i : Nat} {x : DS}
    (hx : h'.dsets[i]? = some x) : ∃ y, h.dsets[i]? = some y ∧ y.cfg = x.cfg ∧ y.mazes = x.mazes ∧ (i ≠ d → y = x) := by
  obtain ⟨_, ds, c, g', c', hds, _, e1, _⟩ := hp
  rw [e1] at hx
  by_cases hi : d = i
  · subst hi
    rw [List.getElem?_set_self (idx_lt_of_getElem? hds)] at hx
    cases hx
    exact ⟨ds, hds, rfl, rfl, fun hne => absurd rfl hne⟩
  · rw [List.getElem?_set_ne hi] at hx
    exact ⟨x, hx, rfl, rfl, fun _ => rfl⟩

theorem InPlaceStep.closed {h h' : Heap} {d d' : Nat} (hp : InPlaceStep h d h' d') (hc : h.Closed) : h'.Closed := by
  intro i x hx
  obtain ⟨y, hy, e1, e2, _⟩ := hp.dsets_refs hx
  obtain ⟨_, ds, c, g', c', _, _, _, e3, e4, _⟩ := hp
  obtain ⟨a1, a2⟩ := hc i y hy
  rw [e3, e4, List.length_set, ← e1, ← e2]
  exact ⟨a1, a2⟩

theorem InPlaceStep.isolated {h h' : Heap} {d d' : Nat} (hp : InPlaceStep h d h' d') {i : Nat} (hi : h.Isolated i) :
    h'.Isolated i := by
  intro x j xj hx hxj hne
  obtain ⟨y, hy, e1, e2, _⟩ := hp.dsets_refs hx
  obtain ⟨yj, hyj, f1, f2, _⟩ := hp.dsets_refs hxj
  rw [← e1, ← e2, ← f1, ← f2]
  exact hi y j yj hy hyj hne

theorem InPlaceStep.untouched {h h' : Heap} {d d' : Nat} (hp : InPlaceStep h d h' d') (hiso : h.Isolated d) {i : Nat}
    (hi : i ≠ d) : h.Untouched h' i := by
  obtain ⟨_, ds, c, g', c', hds, _, e1, e3, _, e5⟩ := hp
  refine ⟨by rw [e1, List.getElem?_set_ne (fun e => hi e.symm)], fun x hx => ?_⟩
  obtain ⟨a1, a2⟩ := hiso ds i x hds hx hi
  exact ⟨by rw [e3, List.getElem?_set_ne (fun e => a1 e.symm)], fun a ha => e5 a (a2 a ha)⟩

/-! ## one step and whole runs -/

/-- one successful filter application on an isolated dataset of a closed heap: the invariants carry over to the result,
    no dataset object disappears, the result is the input (in-place collection) or a brand-new dataset object, and every
    dataset that existed before and is not the in-place target is untouched -/
theorem step_sharing {np : Percentile} {h : Heap} {d : Nat} {op : Op} {h' : Heap} {d' : Nat}
    (hc : h.Closed) (hiso : h.Isolated d) (hs : applyOp np h d op = .ok (h', d')) :
    h'.Closed ∧ h'.Isolated d' ∧ h.dsets.length ≤ h'.dsets.length ∧
    ((op.inplaceCollect = true ∧ d' = d) ∨ (op.inplaceCollect = false ∧ d' = h.dsets.length)) ∧
    ∀ i, i < h.dsets.length → (i ≠ d ∨ op.inplaceCollect = false) → h.Untouched h' i := by
  rcases applyOp_shape hs with ⟨hop, hf⟩ | ⟨hop, hp⟩
  · have hd : d' = h.dsets.length := hf.2.2.1
    refine ⟨hf.closed hc, hf.isolated hc (Or.inl hd), ?_, Or.inr ⟨hop, hd⟩, fun i hi _ => hf.untouched hc hi⟩
    obtain ⟨_, _, _, ds', e, _⟩ := hf
    rw [e]; simp
  · have hd : d' = d := hp.1
    refine ⟨hp.closed hc, hd ▸ hp.isolated hiso, ?_, Or.inl ⟨hop, hd⟩, fun i _ hi => ?_⟩
    · obtain ⟨_, ds, c, g', c', _, _, e1, _⟩ := hp
      rw [e1, List.length_set]; exact Nat.le_refl _
    · rcases hi with hi | hi
      · exact hp.untouched hiso hi
      · rw [hop] at hi; cases hi

theorem step_disjoint {np : Percentile} {h : Heap} {d : Nat} {op : Op} {h' : Heap} {d' : Nat}
    (hc : h.Closed) (hdis : h.Disjoint) (hs : applyOp np h d op = .ok (h', d')) : h'.Closed ∧ h'.Disjoint := by
  rcases applyOp_shape hs with ⟨_, hf⟩ | ⟨_, hp⟩
  · refine ⟨hf.closed hc, fun i => hf.isolated hc (Or.inr (hdis i))⟩
  · exact ⟨hp.closed hc, fun i => hp.isolated (hdis i)⟩

theorem Heap.Untouched.trans {h h1 h2 : Heap} {i : Nat} (a : h.Untouched h1 i) (b : h1.Untouched h2 i) : h.Untouched h2 i := by
  refine ⟨by rw [b.1, a.1], fun ds hds => ?_⟩
  obtain ⟨a1, a2⟩ := a.2 ds hds
  obtain ⟨b1, b2⟩ := b.2 ds (by rw [a.1]; exact hds)
  exact ⟨by rw [b1, a1], fun x hx => by rw [b2 x hx, a2 x hx]⟩

theorem Heap.Untouched.refl (h : Heap) (i : Nat) : h.Untouched h i := ⟨rfl, fun _ _ => ⟨rfl, fun _ _ => rfl⟩⟩

theorem runSeq_sharing (np : Percentile) : ∀ (ops : List Op) (h : Heap) (d : Nat) (h' : Heap) (d' : Nat),
    h.Closed → h.Isolated d → runSeq np h d ops = .ok (h', d') →
    h'.Closed ∧ h'.Isolated d' ∧ h.dsets.length ≤ h'.dsets.length ∧ (d' = d ∨ h.dsets.length ≤ d') ∧
    ∀ i, i < h.dsets.length → i ≠ d → h.Untouched h' i
  | [], h, d, h', d', hc, hiso, hr => by
    simp only [runSeq, Except.ok.injEq, Prod.mk.injEq] at hr
    obtain ⟨rfl, rfl⟩ := hr
    exact ⟨hc, hiso, Nat.le_refl _, Or.inl rfl, fun i _ _ => Heap.Untouched.refl _ _⟩
  | op :: ops, h, d, h', d', hc, hiso, hr => by
    unfold runSeq at hr
    split at hr
    · cases hr
    · next h1 d1 hs =>
      obtain ⟨c1, i1, l1, hd1, u1⟩ := step_sharing hc hiso hs
      obtain ⟨c2, i2, l2, hd2, u2⟩ := runSeq_sharing np ops h1 d1 h' d' c1 i1 hr
      have hd1' : d1 = d ∨ d1 = h.dsets.length := by
        rcases hd1 with ⟨_, e⟩ | ⟨_, e⟩
        · exact Or.inl e
        · exact Or.inr e
      refine ⟨c2, i2, by omega, ?_, fun i hi hne => ?_⟩
      · rcases hd2 with e | e
        · rcases hd1' with e' | e'
          · exact Or.inl (e.trans e')
          · exact Or.inr (by omega)
        · exact Or.inr (by omega)
      · have hne1 : i ≠ d1 := by
          rcases hd1' with e | e
          · rw [e]; exact hne
          · omega
        exact (u1 i hi (Or.inl hne)).trans (u2 i (by omega) hne1)

theorem runSeq_disjoint (np : Percentile) : ∀ (ops : List Op) (h : Heap) (d : Nat) (h' : Heap) (d' : Nat),
    h.Closed → h.Disjoint → runSeq np h d ops = .ok (h', d') → h'.Closed ∧ h'.Disjoint
  | [], h, d, h', d', hc, hdis, hr => by
    simp only [runSeq, Except.ok.injEq, Prod.mk.injEq] at hr
    obtain ⟨rfl, rfl⟩ := hr
    exact ⟨hc, hdis⟩
  | op :: ops, h, d, h', d', hc, hdis, hr => by
    unfold runSeq at hr
    split at hr
    · cases hr
    · next h1 d1 hs =>
      obtain ⟨c1, d1'⟩ := step_disjoint hc hdis hs
      exact runSeq_disjoint np ops h1 d1 h' d' c1 d1' hr

theorem runSeq_append (np : Percentile) : ∀ (ops1 ops2 : List Op) (h : Heap) (d : Nat),
    runSeq np h d (ops1 ++ ops2) =
      (match runSeq np h d ops1 with
       | .error e => .error e
       | .ok (h1, d1) => runSeq np h1 d1 ops2)
  | [], _, h, d => by simp [runSeq]
  | op :: ops1, ops2, h, d => by
    simp only [List.cons_append, runSeq]
    cases applyOp np h d op with
    | error e => rfl
    | ok res => exact runSeq_append np ops1 ops2 res.1 res.2

/-! ## `Untouched` and `Closed` in terms of views -/

theorem getAll_congr {α} {l l' : List α} : ∀ (as : List Nat), (∀ a ∈ as, l'[a]? = l[a]?) → getAll l' as = getAll l as
  | [], _ => rfl
  | a :: as, h => by
    unfold getAll
    rw [h a (by simp), getAll_congr as (fun b hb => h b (by simp [hb]))]

theorem getAll_lt {α} {l : List α} : ∀ (as : List Nat) (xs : List α), getAll l as = some xs → ∀ a ∈ as, a < l.length
  | [], _, _ => by simp
  | a :: as, xs, h => by
    unfold getAll at h
    split at h
    · next x ys hx hys =>
      intro b hb
      rcases List.mem_cons.1 hb with rfl | hb
      · exact idx_lt_of_getElem? hx
      · exact getAll_lt as ys hys b hb
    · cases h

/-- an untouched dataset views exactly as before: same dataset object, same config content, same maze values -/
theorem Heap.Untouched.view_eq {h h' : Heap} {i : Nat} (hu : h.Untouched h' i) : h'.view i = h.view i ∧ cfgOf h' i = cfgOf h i := by
  obtain ⟨e, hrest⟩ := hu
  unfold Heap.view cfgOf
  rw [e]
  cases hds : h.dsets[i]? with
  | none => exact ⟨rfl, rfl⟩
  | some ds =>
    obtain ⟨a1, a2⟩ := hrest ds hds
    simp only [a1, getAll_congr ds.mazes a2, and_self]

/-- a heap in which every dataset object can be viewed has no dangling references -/
theorem closed_of_views {h : Heap} (hv : ∀ i, i < h.dsets.length → (h.view i).isSome = true) : h.Closed := by
  intro i ds hds
  have := hv i (idx_lt_of_getElem? hds)
  cases hvi : h.view i with
  | none => rw [hvi] at this; cases this
  | some x =>
    obtain ⟨ds', c, ms⟩ := x
    obtain ⟨_, h1, h2, h3⟩ := view_cfgOf hvi
    rw [hds] at h1
    cases h1
    exact ⟨idx_lt_of_getElem? h2, getAll_lt _ _ h3⟩

end MZ.Filt
