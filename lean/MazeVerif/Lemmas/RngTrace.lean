import MazeVerif.Model.RngTrace
/-! Helper lemmas about the RNG interaction-tree model: `run` of `bind`, monotonicity of `WS`, `WS` of `bind`,
    and the core simulation lemma (two runs from states that agree on the seeded generators agree). -/
namespace MZ.Rng

theorem run_bind {I : Impl} {α β} (p : Prog α) (f : α → Prog β) (σ : States I) :
    run (bind p f) σ = run (f (run p σ).1) (run p σ).2 := by
  induction p generalizing σ with
  | ret a => rfl
  | seed r s k ih => simp only [bind, run]; exact ih _
  | draw r req k ih => simp only [bind, run]; exact ih _ _

theorem trace_bind {I : Impl} {α β} (p : Prog α) (f : α → Prog β) (σ : States I) :
    trace (bind p f) σ = trace p σ ++ trace (f (run p σ).1) (run p σ).2 := by
  induction p generalizing σ with
  | ret a => rfl
  | seed r s k ih => simp only [bind, run, trace, List.cons_append]; rw [ih]
  | draw r req k ih => simp only [bind, run, trace, List.cons_append]; rw [ih]

theorem WS_mono {α} (p : Prog α) : ∀ (sd sd' : RngId → Bool), (∀ r, sd r = true → sd' r = true) → WS sd p → WS sd' p := by
  induction p with
  | ret a => intro _ _ _ _; trivial
  | seed r s k ih =>
    intro sd sd' h hw
    simp only [WS] at hw ⊢
    refine ih _ _ ?_ hw
    intro r' hr'
    by_cases hrr : r' = r
    · simp [hrr]
    · simp only [hrr, if_false] at hr' ⊢; exact h r' hr'
  | draw r req k ih =>
    intro sd sd' h hw
    simp only [WS] at hw ⊢
    exact ⟨h r hw.1, fun v => ih v sd sd' h (hw.2 v)⟩

/-- sequencing: if `p` is well seeded from `sd` and every continuation is well seeded from `sd` alone, so is `bind p f` -/
theorem WS_bind {α β} (p : Prog α) (f : α → Prog β) : ∀ (sd : RngId → Bool), WS sd p → (∀ a, WS sd (f a)) → WS sd (bind p f) := by
  induction p with
  | ret a => intro sd _ hf; exact hf a
  | seed r s k ih =>
    intro sd hw hf
    simp only [bind, WS] at hw ⊢
    refine ih _ hw (fun a => WS_mono (f a) sd _ ?_ (hf a))
    intro r' hr'
    by_cases hrr : r' = r
    · simp [hrr]
    · simp only [hrr, if_false]; exact hr'
  | draw r req k ih =>
    intro sd hw hf
    simp only [bind, WS] at hw ⊢
    exact ⟨hw.1, fun v => ih v sd (hw.2 v) hf⟩

/-- a program that touches only generators of `rs`, all of which are seeded, is well seeded -/
theorem WS_of_usesOnly {α} (p : Prog α) : ∀ (rs sd : RngId → Bool), (∀ r, rs r = true → sd r = true) → UsesOnly rs p → WS sd p := by
  induction p with
  | ret a => intro _ _ _ _; trivial
  | seed r s k ih =>
    intro rs sd h hu
    simp only [UsesOnly, WS] at hu ⊢
    refine ih rs _ ?_ hu.2
    intro r' hr'
    by_cases hrr : r' = r
    · simp [hrr]
    · simp only [hrr, if_false]; exact h r' hr'
  | draw r req k ih =>
    intro rs sd h hu
    simp only [UsesOnly, WS] at hu ⊢
    exact ⟨h r hu.1, fun v => ih v rs sd h (hu.2 v)⟩

/-- CORE: two runs of a program that is well seeded from `sd`, started in states that agree on `sd`, produce the
    same result and the same event trace -/
theorem run_agree {I : Impl} {α} (p : Prog α) :
    ∀ (sd : RngId → Bool) (σ σ' : States I), WS sd p → (∀ r, sd r = true → σ r = σ' r) →
      (run p σ).1 = (run p σ').1 ∧ trace p σ = trace p σ' := by
  induction p with
  | ret a => intro _ _ _ _ _; exact ⟨rfl, rfl⟩
  | seed r s k ih =>
    intro sd σ σ' hw hag
    simp only [WS] at hw
    simp only [run, trace]
    have := ih _ (setSt σ r (I.seed s)) (setSt σ' r (I.seed s)) hw (by
      intro r' hr'
      by_cases hrr : r' = r
      · simp [setSt, hrr]
      · simp only [hrr, if_false] at hr'
        simp only [setSt, hrr, if_false]; exact hag r' hr')
    exact ⟨this.1, by rw [this.2]⟩
  | draw r req k ih =>
    intro sd σ σ' hw hag
    simp only [WS] at hw
    simp only [run, trace]
    have hr : σ r = σ' r := hag r hw.1
    rw [hr]
    have := ih (I.draw (σ' r) req).1 sd (setSt σ r (I.draw (σ' r) req).2) (setSt σ' r (I.draw (σ' r) req).2)
      (hw.2 _) (by
        intro r' hr'
        by_cases hrr : r' = r
        · simp [setSt, hrr]
        · simp only [setSt, hrr, if_false]; exact hag r' hr')
    exact ⟨this.1, by rw [this.2]⟩

theorem wsTrace_of_WS {I : Impl} {α} (p : Prog α) :
    ∀ (sd : RngId → Bool) (σ : States I), WS sd p → wsTrace sd (trace p σ) = true := by
  induction p with
  | ret a => intro _ _ _; rfl
  | seed r s k ih => intro sd σ hw; simp only [WS] at hw; simp only [trace, wsTrace]; exact ih _ _ hw
  | draw r req k ih =>
    intro sd σ hw
    simp only [WS] at hw
    simp only [trace, wsTrace, hw.1, Bool.true_and]
    exact ih _ sd _ (hw.2 _)

def seeded3 : RngId → Bool
  | .npGen => false
  | _ => true

theorem WS_repeatGen {μ} (g : Prog μ) (sd : RngId → Bool) (hg : WS sd g) : ∀ n, WS sd (repeatGen g n)
  | 0 => trivial
  | n + 1 => by
    simp only [repeatGen]
    exact WS_bind g _ sd hg (fun m => WS_bind _ _ sd (WS_repeatGen g sd hg n) (fun _ => trivial))

end MZ.Rng
