import MazeVerif.DriverOps.Util
import MazeVerif.Model.Views
namespace MZ.Drv.C13
open Lean MZ.Drv MZ.Views

def jErr : Err → Json
  | .indexError => Json.str "IndexError"
  | .valueError => Json.str "ValueError"

def jExcept {α} (f : α → Json) : Except Err α → Json
  | .ok a => f a
  | .error e => jErr e

def asPair (j : Json) : R (Cell × Cell) := do
  match (← j.getArr?).toList with
  | [a, b] => pure ((← asCell a), (← asCell b))
  | _ => throw "pair: expected [[r,c],[r,c]]"
def asPairs (j : Json) : R (List (Cell × Cell)) := do (← j.getArr?).toList.mapM asPair
def jPair (p : Cell × Cell) : Json := Json.arr #[jCell p.1, jCell p.2]
def jPairs (l : List (Cell × Cell)) : Json := jList jPair l
def jBool (b : Bool) : Json := Json.bool b
def asBoolList (j : Json) : R (List Bool) := do (← j.getArr?).toList.mapM (·.getBool?)
def jNatMat (l : List (List Nat)) : Json := jList jNats l

/-- ops:
  `C13.views` {rows, cols, edges, pairs, cells, comp_cells, paths:[{path,empty_ok}], flips:[[bool]], from_adj:[[pair]], sols:[{sol,always}]}
     → every view of the model on these inputs (errors as "IndexError"/"ValueError")
  `C13.lattice` {n} → {edges, maxdeg} -/
def handle (op : String) (j : Json) : R Json := do
  match op with
  | "C13.views" =>
    let rows ← getNat j "rows"
    let cols ← getNat j "cols"
    let E ← getEdges j "edges"
    let m : Maze := ⟨rows, cols, E⟩
    let pairs ← asPairs (← fld j "pairs")
    let cs ← getCells j "cells"
    let ccs ← getCells j "comp_cells"
    let paths ← (← getArr j "paths").mapM fun p => do
      pure ((← getCells p "path"), (← getBool p "empty_ok"))
    let flips ← (← getArr j "flips").mapM asBoolList
    let fromAdj ← (← getArr j "from_adj").mapM asPairs
    let sols ← (← getArr j "sols").mapM fun p => do
      pure ((← getCells p "sol"), (← getBool p "always"))
    let comp := ccs.map fun c =>
      match componentFrom rows cols E c (componentFuel rows cols) with
      | some v => jCells v
      | none => Json.str "outOfFuel"
    let fa := fromAdj.map fun adj =>
      match fromAdjList adj with
      | .ok m' => obj [("n", jNat m'.rows), ("entries", jEdges (trueEntries m'))]
      | .error e => jErr e
    pure <| obj [
      ("nc", jList (fun p => jExcept jBool (nodesConnected m p.1 p.2)) pairs),
      ("ic1", jList (fun p => jExcept jBool (isConnection1 m p)) pairs),
      ("ic", jExcept (jList jBool) (isConnection m pairs)),
      ("md", jList (fun p => jNat (manhattan p.1 p.2)) pairs),
      ("nbrs", jList (fun c => jExcept jCells (getCoordNeighbors m c)) cs),
      ("nbrs_shared", jList (fun c => jCells (coordNeighbors rows cols E c)) cs),
      ("comp", Json.arr comp.toArray),
      ("vp", jList (fun p => jExcept jBool (isValidPath m p.1 p.2)) paths),
      ("degrees", jNatMat (coordDegrees m)),
      ("nodes", jCells (getNodes m)),
      ("adj", jList (fun f => jPairs (asAdjList m f)) flips),
      ("from_adj", Json.arr fa.toArray),
      ("forks", jList (fun s => jExcept jNats (forkIdxs m s.1 s.2)) sols),
      ("following", jList (fun s => jExcept jNats (followingIdxs m s.1)) sols)]
  | "C13.lattice" =>
    let n ← getNat j "n"
    pure <| obj [("edges", jPairs (latticeConnectionArray n)), ("maxdeg", jNatMat (latticeMaxDegrees n))]
  | _ => throw s!"unknown op {op}"

end MZ.Drv.C13
