import MazeVerif.DriverOps.Util
import MazeVerif.Model.Gen
namespace MZ.Drv.C01
open Lean MZ.Drv MZ

/-- a Python number argument: `null` | `{"int": n}` | `{"ratio": [num, den], "neg": bool}` (an exact double) -/
inductive PyNum where
  | none | int (n : Int) | flt (neg : Bool) (num den : Nat)

def asPyNum (j : Option Json) : R PyNum := do
  match j with
  | none => pure .none
  | some v =>
    match optFld v "int" with
    | some n => pure (.int (← n.getInt?))
    | none =>
      let r ← getNatList v "ratio"
      let neg ← getBool v "neg"
      match r with
      | [a, b] => pure (.flt neg a b)
      | _ => throw "ratio: expected [num, den]"

/-- `int(x * k)` for the double `x = ±num/den` and the integer `k`, in IEEE double arithmetic like CPython -/
def floatTimesTrunc (neg : Bool) (num den : Nat) (k : Nat) : Int :=
  -- |x * k| is the same double for both signs; `int()` truncates toward zero
  let t : Nat := (Float.ofNat num / Float.ofNat den * Float.ofNat k).floor.toUInt64.toNat
  if neg then -((t : Nat) : Int) else ((t : Nat) : Int)

/-- argument handling of `gen_dfs` (generators.py:88-118): returns `(n_accessible_cells, max_tree_depth)` as the code
    stores them in `generation_meta` -/
def dfsArgs (rows cols : Nat) (acc depth : PyNum) : Int × Int :=
  let nTotal := rows * cols
  let nAcc : Int := match acc with
    | .none => nTotal
    | .int n => n
    | .flt neg a b => floatTimesTrunc neg a b nTotal
  let md : Int := match depth with
    | .none => 2 * nTotal
    | .int n => n
    | .flt neg a b => floatTimesTrunc neg a b (rows + cols)
  (nAcc, md)

def getRands (j : Json) : R (List (Nat × Nat)) := do
  match optFld j "rands" with
  | none => pure []
  | some v =>
    (← v.getArr?).toList.mapM fun x => do
      match ← asNatList x with
      | [a, b] => pure (a, b)
      | _ => throw "rand: expected [num, den]"

/-- uniform view of a generator run: connection bits + the metadata fields the code attaches -/
structure GenRes where
  edges : List Edge
  start : Option Cell := none
  visited : Option (List Cell) := none
  flag : Option Bool := none          -- `fully_connected` when the key is present
  leftover : Nat := 0
  nAcc : Option Int := none
  maxDepth : Option Int := none
  dfsEdges : Option (List Edge) := none

def GenRes.toJson (g : GenRes) : Json :=
  obj ([("ok", Json.bool true), ("edges", jEdges g.edges), ("leftover", jNat g.leftover)]
    ++ (match g.start with | some c => [("start", jCell c)] | none => [])
    ++ (match g.visited with | some v => [("visited", jCells v)] | none => [])
    ++ (match g.flag with | some b => [("fully_connected", Json.bool b)] | none => [])
    ++ (match g.nAcc with | some n => [("n_accessible_cells", jInt n)] | none => [])
    ++ (match g.maxDepth with | some n => [("max_tree_depth", jInt n)] | none => [])
    ++ (match g.dfsEdges with | some e => [("dfs_edges", jEdges e)] | none => []))

/-- `get_connected_component()` from the metadata (lattice_maze.py:344-366) -/
def GenRes.component (rows cols : Nat) (g : GenRes) : Option (List Cell) :=
  if g.flag.getD false then some (cells rows cols) else g.visited

/-- the `start_coord` argument of a request: absent | a pair of integers (a `Cell`, the model's domain) | an integer
    list of another length (not a `Cell`; `_random_start_coord` rejects it by its shape test before looking at values) -/
inductive StartArg where
  | absent | cell (c : Cell) | wrongLength (n : Nat)

def getStartArg (j : Json) : R StartArg := do
  match optFld j "start" with
  | none => pure .absent
  | some v =>
    let xs ← (← v.getArr?).toList.mapM fun x => x.getInt?
    match xs with
    | [a, b] => pure (.cell (a, b))
    | _ => pure (.wrongLength xs.length)

/-- why a model run returned `none`, named for the harness: the error branch of `startCoord` for a given start
    outside the grid (`StartRejected`, = the ValueError of `_random_start_coord`; `C01_start_rejected`), a refused /
    missing start draw, or an incomplete run (draws exhausted / out of range / fuel) -/
def noneReason (rows cols : Nat) (given : Option Cell) (draws : List Nat) : String :=
  if StartRejected rows cols given then "start_outside_grid"
  else if (startCoord rows cols given draws).isNone then "start_draw_refused"
  else "run_incomplete"

/-- run the generator model named in the request on the recorded draws; `.error reason` = the model run returned
    `none`, with the reason (`noneReason`) -/
def runGen (j : Json) : R (Except String GenRes) := do
  let gen ← getStr j "gen"
  let rows ← getNat j "rows"; let cols ← getNat j "cols"
  let draws ← getNatList j "draws"
  let given : Option Cell ← match (← getStartArg j) with
    | .absent => pure none
    | .cell c => pure (some c)
    | .wrongLength _ =>
      -- outside the model's type `Cell`: no model function is evaluated; the harness checks the real code raises ValueError
      return (.error "start_wrong_length")
  let fin (r : Option GenRes) : Except String GenRes := match r with
    | some g => .ok g
    | none => .error (noneReason rows cols given draws)
  let fuel := 8 * rows * cols + 16
  match gen with
  | "dfs" | "prim" | "dfs_percolation" =>
    let acc ← asPyNum (optFld j "accessible_cells")
    let depth ← asPyNum (optFld j "max_tree_depth")
    let (nAcc, md) := dfsArgs rows cols acc depth
    let doForks := (optFld j "do_forks").map (fun v => v.getBool?.toOption.getD true) |>.getD true
    let rs := (optFld j "randomized_stack").map (fun v => v.getBool?.toOption.getD false) |>.getD false
    let a : Args := { nAcc := nAcc.toNat, maxDepth := md, doForks := doForks, randStack := rs }
    if gen == "dfs" || gen == "prim" then
      let r := if gen == "dfs" then genDfsTop rows cols a given draws fuel else genPrimTop rows cols a given draws fuel
      pure <| fin <| r.map fun o =>
        ({ edges := o.edges, start := some o.start, visited := some o.visited, flag := some o.fullyConnected,
           leftover := o.leftover.length, nAcc := some nAcc, maxDepth := some md } : GenRes)
    else
      let p ← getNatList j "p"
      let rands ← getRands j
      match p with
      | [pn, pd] =>
        pure <| fin <| (genDfsPercolationTop rows cols (pn, pd) a given draws rands fuel).map fun o =>
          ({ edges := o.edges, start := some o.start, visited := some o.visited, flag := some o.fullyConnected,
             nAcc := some nAcc, maxDepth := some md, dfsEdges := some o.dfsEdges } : GenRes)
      | _ => throw "p: expected [num, den]"
  | "wilson" =>
    pure <| fin <| (genWilsonTop rows cols draws (64 * (draws.length + rows * cols) + 64)).map fun s =>
      ({ edges := s.E, flag := some true, leftover := s.rng.length } : GenRes)
  | "percolation" =>
    let p ← getNatList j "p"
    let rands ← getRands j
    match p with
    | [pn, pd] =>
      pure <| fin <| (genPercolationTop rows cols (pn, pd) given draws rands fuel).map fun o =>
        ({ edges := o.edges, start := some o.start, visited := some o.visited } : GenRes)
    | _ => throw "p: expected [num, den]"
  | g => throw s!"unknown generator {g}"

def handle (op : String) (j : Json) : R Json := do
  match op with
  | "C01.gen" =>
    match ← runGen j with
    | .ok g => pure g.toJson
    | .error reason => pure (obj [("ok", false), ("reason", Json.str reason)])
  | _ => throw s!"unknown op {op}"

end MZ.Drv.C01
