import MazeVerif.DriverOps.Util
namespace MZ.Drv.C19
open Lean MZ.Drv

/-- driver ops of property C19 (`"op": "C19.<name>"`) -/
def handle (op : String) (_j : Json) : R Json := do
  match op with
  | _ => throw s!"unknown op {op}"

end MZ.Drv.C19
